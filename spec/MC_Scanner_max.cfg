SPECIFICATION Spec
CONSTANTS Lens = {1, 2, 3}
  Sizes = {80, 10064}
  Pkts <- LinkPkts
  Filters <- LinkFilters
  CutMode = "all"
INVARIANTS ChainExact PrefixKept Emit
CHECK_DEADLOCK FALSE
