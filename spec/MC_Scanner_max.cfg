SPECIFICATION Spec
CONSTANTS MaxLen = 3
  Sizes = {80, 10064}
INVARIANTS ChainExact PrefixKept Emit
CHECK_DEADLOCK FALSE
