SPECIFICATION Spec
CONSTANTS MaxLen = 3
  Sizes = {80, 10064}
  Pkts <- LinkPkts
  Filters <- LinkFilters
  CutAll = TRUE
INVARIANTS ChainExact PrefixKept Emit
CHECK_DEADLOCK FALSE
