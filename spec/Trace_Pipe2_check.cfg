SPECIFICATION TSpec
CONSTANTS ReaderCap = 100
  ValCap0 = 128
  Mode = "check"
  MainKeepsReceiver = FALSE
CONSTRAINT Reached
POSTCONDITION Accepted
CHECK_DEADLOCK FALSE
