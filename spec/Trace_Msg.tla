------------------------------- MODULE Trace_Msg -------------------------------
(* C07: every error message's offset is the start of an RDH or of an 80-bit word  *)
(* of the input, lies inside it, and the quoted bytes / header fields are the      *)
(* bytes stored there.                                                            *)
EXTENDS Rdh, Payload, TLC, Json, IOUtils
Rec == ndJsonDeserialize(IOEnv.TRACE)
VARIABLES l, layout, total
Init == l = 1 /\ layout = << >> /\ total = 0
Why(tag, ev) == PrintT("REJECT " \o ToJson([l |-> l, tag |-> tag, off |-> ev.off, code |-> ev.code]))     \* reported, and the rest of the trace is still judged
\* layout: sequence of [off, size, df]
IsRdhStart(off) == \E i \in 1..Len(layout) : layout[i].off = off
IsWordStart(off) == \E i \in 1..Len(layout) :
                       LET p == layout[i] slot == Slot(p.df) IN
                       /\ off >= p.off + 64 /\ off + 10 <= p.off + p.size
                       /\ (off - p.off - 64) % slot = 0
Next == /\ l <= Len(Rec)
        /\ LET ev == Rec[l] IN
           IF ev.e = "Layout" THEN layout' = ev.pkts /\ total' = ev.total
           ELSE /\ UNCHANGED << layout, total >>
                /\ IF ev.off < total THEN TRUE ELSE Why("offset beyond input", ev)
                /\ IF ev.kind = "word"
                     THEN /\ IF IsWordStart(ev.off) THEN TRUE ELSE Why("offset is not the start of a word", ev)
                          /\ IF ev.quoted = ev.at THEN TRUE ELSE Why("quoted bytes differ from the input", ev)
                     ELSE /\ IF IsRdhStart(ev.off) THEN TRUE ELSE Why("offset is not the start of an RDH", ev)
                          /\ IF ~ev.hasrow \/ RowMatches(ev.row, ev.at) THEN TRUE ELSE Why("RDH row differs from the header bytes", ev)
        /\ l' = l + 1
Spec == Init /\ [][Next]_<< l, layout, total >>
Accepted == IF TLCGet("stats").diameter - 1 = Len(Rec) THEN TRUE
            ELSE Print(<<"TRACE NOT ACCEPTED: matched", TLCGet("stats").diameter - 1, "of", Len(Rec)>>, FALSE)
================================================================================
