------------------------------ MODULE Trace_Link ------------------------------
EXTENDS ItsChecker, TLC, Json, IOUtils, FiniteSets
Rec == ndJsonDeserialize(IOEnv.TRACE)
VARIABLES l, st, cfg
tvars == << l, st, cfg >>

Count(x, s) == Cardinality({i \in 1..Len(s) : s[i] = x})
SameBag(a, b) == Len(a) = Len(b) /\ \A i \in 1..Len(a) : Count(a[i], a) = Count(a[i], b)

Init == l = 1 /\ st = [k \in 0..255 |-> LinkInit] /\ cfg = [running |-> FALSE, its |-> FALSE]
IsEvent(k) == l <= Len(Rec) /\ Rec[l].e = k /\ l' = l + 1

TraceCfg == /\ IsEvent("Cfg")
            /\ cfg' = [running |-> Rec[l].running, its |-> Rec[l].its]
            \* a Cfg event starts a new run; a configured RDH version (custom checks) is the reference version of every link instead of the first one it sees
            /\ st' = [k \in 0..255 |-> IF "cver" \in DOMAIN Rec[l] THEN [LinkInit EXCEPT !.firstVer = Rec[l].cver] ELSE LinkInit]

TracePkt == /\ IsEvent("Pkt")
            /\ LET ev == Rec[l]
                   res == CheckPacket(st[ev.link], ev.off, ev.rdh, ev.payload, cfg)
               IN /\ IF SameBag(res.errs, ev.errs) THEN TRUE
                     ELSE PrintT("REJECT " \o ToJson([l |-> l, tag |-> "errors", expected |-> res.errs, observed |-> ev.errs]))      \* reported; the rest of the trace is still judged
                  /\ st' = [st EXCEPT ![ev.link] = res.st]
            /\ UNCHANGED cfg

Next == TraceCfg \/ TracePkt
Spec == Init /\ [][Next]_tvars
Accepted == IF TLCGet("stats").diameter - 1 = Len(Rec) THEN TRUE
            ELSE Print(<<"TRACE NOT ACCEPTED: matched", TLCGet("stats").diameter - 1, "of", Len(Rec)>>, FALSE)
===============================================================================
