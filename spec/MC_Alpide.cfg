INIT Init
NEXT Next
INVARIANTS Agree HitIndependent Emit
CHECK_DEADLOCK FALSE
