-------------------------------- MODULE Alpide --------------------------------
(* ALPIDE lane byte-stream decoding and readout-frame rules (its-stave mode).  *)
EXTENDS Bits, FiniteSets

\* ---- byte classification (first byte of an ALPIDE word) ----
IsDataShort(b) == b \div 64 = 1            \* 01xx xxxx : + 1 byte
IsDataLong(b)  == b \div 64 = 0            \* 00xx xxxx : + 2 bytes
IsRegionHdr(b) == b \div 32 = 6            \* 110x xxxx
IsChipEmpty(b) == b \div 16 = 14           \* 1110 xxxx : + 1 byte (bunch counter)
IsChipHeader(b) == b \div 16 = 10          \* 1010 xxxx : + 1 byte (bunch counter)
IsChipTrailer(b) == b \div 16 = 11         \* 1011 xxxx
FatalApes == {244, 245, 246, 247, 248, 249, 250, 251, 252}     \* 0xF4..0xFC

DecInit == [skip |-> 0, nextBc |-> FALSE, hdr |-> FALSE, lastChip |-> 0, chips |-> << >>, fatal |-> FALSE, dup |-> FALSE, trailers |-> << >>]

HasChip(chips, id) == \E i \in 1..Len(chips) : chips[i].id = id

DecStep(d, b) ==
   IF d.skip > 0 THEN [d EXCEPT !.skip = @ - 1]
   ELSE IF d.nextBc THEN
        IF HasChip(d.chips, d.lastChip) THEN [d EXCEPT !.nextBc = FALSE, !.dup = TRUE]     \* "Bunch counter already set"
        ELSE [d EXCEPT !.nextBc = FALSE, !.chips = Append(@, [id |-> d.lastChip, bc |-> b])]
   ELSE IF ~d.hdr /\ b = 0 THEN d                                                        \* padding
   ELSE IF IsDataShort(b) THEN [d EXCEPT !.skip = 1]
   ELSE IF IsDataLong(b) THEN [d EXCEPT !.skip = 2]
   ELSE IF IsRegionHdr(b) THEN [d EXCEPT !.hdr = TRUE]
   ELSE IF IsChipEmpty(b) THEN [d EXCEPT !.hdr = FALSE, !.lastChip = b % 16, !.nextBc = TRUE]
   ELSE IF IsChipHeader(b) THEN [d EXCEPT !.hdr = TRUE, !.lastChip = b % 16, !.nextBc = TRUE]
   ELSE IF IsChipTrailer(b) THEN [d EXCEPT !.hdr = FALSE, !.trailers = Append(@, b)]
   ELSE IF b \in FatalApes THEN [d EXCEPT !.fatal = TRUE]
   ELSE d                                   \* busy on/off, warning APEs, unknown bytes

RECURSIVE DecRun(_, _, _)
DecRun(d, bytes, i) == IF i > Len(bytes) THEN d ELSE DecRun(DecStep(d, bytes[i]), bytes, i + 1)
Decode(bytes) == DecRun(DecInit, bytes, 1)

Bcs(chips) == {chips[i].bc : i \in 1..Len(chips)}

\* user-configured outer-barrel checks (custom checks file): expected chip count per lane and the allowed chip id orders; NoCustom = none
NoVal == 100000
NoCustom == [count |-> NoVal, orders |-> << >>]
ChipIdSeq(chips) == [i \in 1..Len(chips) |-> chips[i].id]
\* verdict for one lane: "fatal" | "err" | "ok" (with its bunch counter)
\* ib: inner barrel; laneNo: lane number; custom: the outer-barrel chip count / order rules (they do not apply to inner-barrel lanes)
LaneVerdictD(d, ib, laneNo, custom) ==
   IF d.fatal THEN [v |-> "fatal", bc |-> 0]
   ELSE IF d.chips = << >> THEN [v |-> "err", bc |-> 0]              \* no chip header / empty frame in the lane data: chip count error
   ELSE LET bcErr == Cardinality(Bcs(d.chips)) > 1
            cntErr == IF ib THEN Len(d.chips) # 1 ELSE (custom.count # NoVal /\ Len(d.chips) # custom.count)
            ordErr == ~cntErr /\ (IF ib THEN d.chips[1].id # laneNo
                                  ELSE custom.orders # << >> /\ ~(\E k \in 1..Len(custom.orders) : custom.orders[k] = ChipIdSeq(d.chips)))
        IN IF d.dup \/ bcErr \/ cntErr \/ ordErr THEN [v |-> "err", bc |-> 0]
           ELSE [v |-> "ok", bc |-> d.chips[1].bc]
LaneVerdict(bytes, ib, laneNo) == LaneVerdictD(Decode(bytes), ib, laneNo, NoCustom)

\* ---- readout flags of the chip trailers (statistics only: they never change a verdict) ----
\* [trailers, busy violation 1000, data overrun 1100, transmission in fatal 1110, else: flushed incomplete x1xx, strobe extended xx1x, busy transition xxx1]
NoFlags == << 0, 0, 0, 0, 0, 0, 0 >>
FlagsOf(b) == IF b = 184 THEN << 1, 1, 0, 0, 0, 0, 0 >> ELSE IF b = 188 THEN << 1, 0, 1, 0, 0, 0, 0 >> ELSE IF b = 190 THEN << 1, 0, 0, 1, 0, 0, 0 >>
              ELSE << 1, 0, 0, 0, Bit(b, 2), Bit(b, 1), Bit(b, 0) >>
AddFlags(a, b) == [k \in 1..7 |-> a[k] + b[k]]
RECURSIVE SumFlags(_, _)
SumFlags(ts, k) == IF k > Len(ts) THEN NoFlags ELSE AddFlags(FlagsOf(ts[k]), SumFlags(ts, k + 1))

ExpectLanes(barrel) == CASE barrel = "IB" -> 3 [] barrel = "ML" -> 8 [] barrel = "OL" -> 14
IbGroups == { {0, 1, 2}, {3, 4, 5}, {6, 7, 8} }
===============================================================================
