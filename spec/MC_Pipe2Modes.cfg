INIT MInit
NEXT MNext
CONSTANTS ReaderCap = 1
  ValCap0 = 1
  Mode = "none"
  MainKeepsReceiver = FALSE
INVARIANT Emit
CHECK_DEADLOCK FALSE
