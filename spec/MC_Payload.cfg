INIT Init
NEXT Next
INVARIANTS CutExact Offsets Emit
CHECK_DEADLOCK FALSE
