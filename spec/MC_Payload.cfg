INIT Init
NEXT Next
INVARIANTS CutExact Fmt0Filler Offsets Emit
CHECK_DEADLOCK FALSE
