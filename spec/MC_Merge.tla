---- MODULE MC_Merge ----
(* all merges of per-link packet sequences that keep each link's order (C06) *)
EXTENDS Arrival
MergeMsgs == [s \in {"a", "b"} |-> [i \in 1..4 |-> [off |-> 0, id |-> (IF s = "a" THEN 0 ELSE 100) + i]]]
MergeMsgs3 == [s \in {"a", "b", "c"} |-> [i \in 1..3 |-> [off |-> 0, id |-> (CASE s = "a" -> 0 [] s = "b" -> 100 [] s = "c" -> 200) + i]]]
EmitM == Done => PrintT("MERGE " \o ToJson([i \in 1..Len(arrived) |-> arrived[i].id]))
====
