------------------------------- MODULE MC_Pipe2 -------------------------------
(* Closed system around Pipe2 for model checking: an input of at most         *)
(* MaxBatches batches of Full or fewer packets over the ids in Links, the stop *)
(* flag raised from outside at any instant (a signal; the error cap and fatal  *)
(* errors are instances), or by the collector.                                 *)
EXTENDS Pipe2
CONSTANTS Links, MaxBatches, Full, MaxStops
VARIABLES budget, nstop
mcvars == << allvars, budget, nstop >>
MCInit == Init /\ asend = (CHOOSE l \in Links : TRUE) /\ budget = MaxBatches /\ nstop = 0
KB == UNCHANGED << budget, nstop >>
KA == UNCHANGED asend
Reader == \/ (\E n \in 1..Full : RSendStart(n)) /\ budget > 0 /\ budget' = budget - 1 /\ UNCHANGED nstop /\ KA
          \/ (RCheckStop \/ REnqueue \/ RSendFail) /\ KB /\ KA
          \/ RSendDone(rlen < Full) /\ KB /\ KA                     \* a batch that is not full is the last one
          \/ REofExit /\ budget = 0 /\ KB /\ KA                     \* the input ended at a batch boundary
Analysis == \/ (ACheck \/ ATake \/ ARecv(arem) \/ ARecvDisc \/ AView \/ AJoinStart \/ AExit \/ ADrop) /\ KB /\ KA
            \/ (\E l \in Links : ASpawn(l)) /\ KB /\ KA
            \/ (\E l \in Links : ADispatchStartL(l)) /\ KB
            \/ AEnqueue /\ KB
Validator(l) == (VTake(l) \/ VRecv(l) \/ VExit(l)) /\ KB /\ KA
Writer == (WTake \/ WRecv \/ WStopBreak \/ (WPushed /\ ~stop) \/ WRecvDisc \/ WDrop) /\ KB /\ KA
Main == (MDrop \/ MForwardEnd \/ MJoined) /\ KB /\ KA
Collector == ((\E b \in BOOLEAN : CRecv(b) /\ (b => nstop < MaxStops) /\ nstop' = (IF b THEN nstop + 1 ELSE nstop) /\ UNCHANGED budget) \/ (CClosed /\ KB)) /\ KA
Signal == ExtStop /\ nstop < MaxStops /\ nstop' = nstop + 1 /\ UNCHANGED budget /\ KA
Finished == AllDone /\ UNCHANGED mcvars
MCNext == Reader \/ Analysis \/ (\E l \in Links : Validator(l)) \/ Writer \/ Main \/ Collector \/ Signal \/ Finished
\* CRecv(FALSE) is a stuttering step (statistics messages): excluded from fairness and from the next-state relation's progress
Progress == Reader \/ Analysis \/ (\E l \in Links : Validator(l)) \/ Writer \/ Main \/ (CClosed /\ KB /\ KA)
MCSpec == MCInit /\ [][MCNext]_mcvars /\ WF_mcvars(Reader) /\ WF_mcvars(Analysis) /\ (\A l \in Links : WF_mcvars(Validator(l)))
          /\ WF_mcvars(Writer) /\ WF_mcvars(Main) /\ WF_mcvars(CClosed /\ KB /\ KA)
\* C17: the process ends (no deadlock, no livelock) whatever the stop condition and the schedule
Terminates == <>AllDone
\* every worker has finished before main returns; the collector is the last one
AllJoined == (mpc = "done") => (rpc = "done" /\ apc = "done" /\ wpc = "done" /\ \A l \in Spawned : vpc[l] = "done")
CollectorLast == cpc = "done" => (mpc = "done")
\* the writer's output is a number of whole batches, never more than were read
WholeOut == wout <= MaxBatches - budget
\* no deadlock: a state without a progress step is the final state
NoDeadlock == AllDone \/ ENABLED Progress
TypeOK == /\ rpc \in {"check", "sending", "sent", "done"} /\ apc \in {"check", "recv", "taken", "batch", "sending", "join", "joining", "exited", "done"}
          /\ wpc \in {"recv", "taken", "got", "exited", "done"} /\ mpc \in {"drop", "forward", "joinA", "done"} /\ cpc \in {"loop", "done"}
          /\ Len(qRA) <= ReaderCap /\ \A l \in Spawned : qV[l] <= CapOf(l)
===============================================================================
