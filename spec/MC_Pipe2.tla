------------------------------- MODULE MC_Pipe2 -------------------------------
(* Closed system around Pipe2 for model checking: an input of at most         *)
(* MaxBatches batches of Full or fewer packets over the ids in Links, the stop *)
(* flag raised from outside at any instant (a signal; the error cap and fatal  *)
(* errors are instances), or by the collector.                                 *)
EXTENDS Pipe2
CONSTANTS Links, MaxBatches, Full, MaxStops,
          MaxSignals,      \* signals (SIGINT / SIGTERM / SIGHUP) delivered at any instant
          Handler          \* the signal handler (util/lib.rs init_ctrlc_handler): it raises the stop flag; "count" = as coded: the SECOND signal ends the
                           \* process at once (ungraceful by design). "flag" = a seeded defect kept as a switch: "the flag was already set" is taken for
                           \* "second signal" - but the collector raises the same flag at the error cap and on fatal errors (MC_Pipe2_handler_mutant shows it)
VARIABLES budget, nstop,
          nsig, killed     \* signals delivered so far; the handler has ended the process without joining anybody
mcvars == << allvars, budget, nstop, nsig, killed >>
MCInit == Init /\ asend = (CHOOSE l \in Links : TRUE) /\ budget = MaxBatches /\ nstop = 0 /\ nsig = 0 /\ killed = FALSE
KS == UNCHANGED << nsig, killed >>
KB == UNCHANGED << budget, nstop, nsig, killed >>
KA == UNCHANGED asend
Reader == /\ ~killed
          /\ \/ (\E n \in 1..Full : RSendStart(n)) /\ budget > 0 /\ budget' = budget - 1 /\ UNCHANGED nstop /\ KS /\ KA
             \/ (RCheckStop \/ REnqueue \/ RSendFail) /\ KB /\ KA
             \/ RSendDone(rlen < Full) /\ KB /\ KA                     \* a batch that is not full is the last one
             \/ REofExit /\ budget = 0 /\ KB /\ KA                     \* the input ended at a batch boundary
Analysis == /\ ~killed
            /\ \/ (ACheck \/ ATake \/ ARecv(arem) \/ ARecvDisc \/ AView \/ AJoinStart \/ AExit \/ ADrop) /\ KB /\ KA
               \/ (\E l \in Links : ASpawn(l)) /\ KB /\ KA
               \/ (\E l \in Links : ADispatchStartL(l)) /\ KB
               \/ AEnqueue /\ KB
Validator(l) == ~killed /\ (VTake(l) \/ VRecv(l) \/ VExit(l)) /\ KB /\ KA
Writer == ~killed /\ (WTake \/ WRecv \/ WStopBreak \/ (WPushed /\ ~stop) \/ WRecvDisc \/ WDrop) /\ KB /\ KA
Main == ~killed /\ (MDrop \/ MForwardEnd \/ MJoined) /\ KB /\ KA
Collector == ~killed /\ ((\E b \in BOOLEAN : CRecv(b) /\ (b => nstop < MaxStops) /\ nstop' = (IF b THEN nstop + 1 ELSE nstop) /\ UNCHANGED budget /\ KS) \/ (CClosed /\ KB)) /\ KA
\* a signal: the handler raises the flag (whatever its value) and may end the process
Signal == /\ ~killed /\ ~AllDone /\ nsig < MaxSignals /\ nsig' = nsig + 1
          /\ killed' = (CASE Handler = "count" -> nsig >= 1 [] Handler = "flag" -> stop)
          /\ IF stop THEN UNCHANGED allvars ELSE ExtStop /\ KA
          /\ UNCHANGED << budget, nstop >>
Finished == (AllDone \/ killed) /\ UNCHANGED mcvars
MCNext == Reader \/ Analysis \/ (\E l \in Links : Validator(l)) \/ Writer \/ Main \/ Collector \/ Signal \/ Finished
\* CRecv(FALSE) is a stuttering step (statistics messages): excluded from fairness and from the next-state relation's progress
Progress == ~killed /\ (Reader \/ Analysis \/ (\E l \in Links : Validator(l)) \/ Writer \/ Main \/ (CClosed /\ KB /\ KA))
MCSpec == MCInit /\ [][MCNext]_mcvars /\ WF_mcvars(Reader) /\ WF_mcvars(Analysis) /\ (\A l \in Links : WF_mcvars(Validator(l)))
          /\ WF_mcvars(Writer) /\ WF_mcvars(Main) /\ WF_mcvars(~killed /\ CClosed /\ KB /\ KA)
\* C17: the process ends (no deadlock, no livelock) whatever the stop condition and the schedule
Terminates == <>(AllDone \/ killed)
\* C17: one signal never ends the process ungracefully, whatever had raised the stop flag before it
OrderlyOnOneSignal == killed => nsig >= 2
\* every worker has finished before main returns; the collector is the last one
AllJoined == (mpc = "done") => (rpc = "done" /\ apc = "done" /\ wpc = "done" /\ \A l \in Spawned : vpc[l] = "done")
CollectorLast == cpc = "done" => (mpc = "done")
\* the writer's output is a number of whole batches, never more than were read
WholeOut == wout <= MaxBatches - budget
\* no deadlock: a state without a progress step is the final state
NoDeadlock == AllDone \/ killed \/ ENABLED Progress
TypeOK == /\ rpc \in {"check", "sending", "sent", "done"} /\ apc \in {"check", "recv", "taken", "batch", "sending", "join", "joining", "exited", "done"}
          /\ wpc \in {"recv", "taken", "got", "exited", "done"} /\ mpc \in {"drop", "forward", "joinA", "done"} /\ cpc \in {"loop", "done"}
          /\ Len(qRA) <= ReaderCap /\ \A l \in Spawned : qV[l] <= CapOf(l)
===============================================================================
