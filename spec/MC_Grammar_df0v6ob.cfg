SPECIFICATION Spec
CONSTANTS Links = {5}
  MaxHbf = 2
  MaxPages = 2
  MaxWords = 6
  Df = 0
  Ver = 6
  Running = TRUE
  Its = TRUE
  Faults = FALSE
  Ob = TRUE
INVARIANTS NoFalseAlarm
VIEW AbsView
CHECK_DEADLOCK FALSE
