SPECIFICATION Spec
CONSTANTS
  Links = {"l1", "l2"}
  Batches <- MCBatches
  ReaderCap = 1
  ValCap = 1
  Mode = "view"
  ErrLinks = {"l1"}
  ErrCap = 2
  FatalAtBatch = 0
  MaxSignals = 2
  StdoutMayClose = TRUE
INVARIANTS AllJoined NoLoss WholeOut
PROPERTY Terminates
CHECK_DEADLOCK TRUE
