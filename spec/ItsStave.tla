------------------------------- MODULE ItsStave -------------------------------
(* `check all its-stave`: the ITS checker plus readout-frame collection and     *)
(* ALPIDE frame rules.  The result field `panic` predicted the aborts of the    *)
(* pinned code (findings 4-7); since their repair nothing aborts and it is      *)
(* constantly FALSE - it is kept so that an abort in a recorded run is rejected. *)
EXTENDS ItsChecker, Alpide

\* layer 7 does not exist (RDH sanity reports it); the stave rules treat it as an outer layer
BarrelOf(fee) == LET ly == Layer(fee) IN IF ly <= 2 THEN "IB" ELSE IF ly <= 4 THEN "ML" ELSE "OL"
FrInit == [barrel |-> "NONE", inFrame |-> FALSE, has |-> FALSE, start |-> 0, lanes |-> << >>, fatal |-> << >>, flags |-> NoFlags, custom |-> NoCustom]
StaveInit == [ck |-> LinkInit, fr |-> FrInit]

LaneNo(barrel, id) == IF barrel = "IB" THEN IbLane(id) ELSE ObLane(id)

StoreLane(lanes, w) ==
   LET id == Id(w) data == SubSeq(w, 1, 9) IN
   IF \E i \in 1..Len(lanes) : lanes[i].id = id
     THEN [i \in 1..Len(lanes) |-> IF lanes[i].id = id THEN [lanes[i] EXCEPT !.d = DecRun(@, data, 1)] ELSE lanes[i]]
     ELSE Append(lanes, [id |-> id, d |-> DecRun(DecInit, data, 1)])

SeqToSet(s) == {s[i] : i \in 1..Len(s)}

\* closing a frame that holds at least one lane
FrameResult(fr, barrel) ==
   LET ib == barrel = "IB"
       n == Len(fr.lanes)
       verdicts == [i \in 1..n |-> LaneVerdictD(fr.lanes[i].d, ib, LaneNo(barrel, fr.lanes[i].id), fr.custom)]
       anyErr == \E i \in 1..n : verdicts[i].v = "err"
       okBcs == {verdicts[i].bc : i \in {j \in 1..n : verdicts[j].v = "ok"}}
       bcMismatch == Cardinality(okBcs) > 1
       newFatal == SelectSeq([i \in 1..n |-> IF verdicts[i].v = "fatal" THEN LaneNo(barrel, fr.lanes[i].id) ELSE 999], LAMBDA x : x # 999)
       fatal == fr.fatal \o newFatal
       expect == IF Len(fatal) <= ExpectLanes(barrel) THEN ExpectLanes(barrel) - Len(fatal) ELSE 0      \* saturating
       countOk == n = expect
       laneNos == {IbLane(fr.lanes[i].id) : i \in 1..n}
       groupOk == \E grp \in IbGroups : laneNos = grp \ SeqToSet(fatal)
       code1 == IF ib THEN "72" ELSE "73"
       code2 == IF ib THEN "74" ELSE "75"
       RECURSIVE LaneFlags(_)
       LaneFlags(k) == IF k > n THEN NoFlags ELSE AddFlags(SumFlags(fr.lanes[k].d.trailers, 1), LaneFlags(k + 1))
   IN [panic |-> FALSE,
       fatal |-> fatal,
       flags |-> LaneFlags(1),          \* readout flags of every chip trailer of every lane of the frame (also of lanes in error or fatal)
       errs |-> If(~countOk \/ (ib /\ ~groupOk), E(fr.start, code1)) \o If(anyErr \/ bcMismatch, E(fr.start, code2))]

\* one word in stave mode: returns [st (ck+fr), errs, sod, panic]
CheckWordS(ss, r, sod, w, off) ==
   LET st == ss.ck  fr == ss.fr  s == st.fsm  cls == Class(s, w)
       base == CheckWord(st, r, TRUE, sod, w, off)
       asTdh == cls \in {"TDH", "TDH_next", "TDH_c"} \/ (cls = "UNKNOWN" /\ s = "NODATA")
       asTdt == cls = "TDT"
       asDataWord == (cls \in {"DATA", "CDW"} \/ (cls = "UNKNOWN" /\ s \in {"DATA", "c_DATA"})) /\ ~(sod /\ Id(w) = ID_CDW)
       stored == asDataWord /\ (IsIbId(Id(w)) \/ IsObId(Id(w)))
   IN IF asTdh THEN
         [st |-> [ck |-> base.st, fr |-> IF ~fr.inFrame /\ TdhCont(w) = 0
                                           THEN [fr EXCEPT !.inFrame = TRUE, !.has = TRUE, !.start = off, !.lanes = << >>] ELSE fr],
          errs |-> base.errs, sod |-> base.sod, panic |-> FALSE]
      ELSE IF stored THEN
         [st |-> [ck |-> base.st, fr |-> IF fr.has THEN [fr EXCEPT !.lanes = StoreLane(@, w)] ELSE fr],
          errs |-> base.errs, sod |-> base.sod, panic |-> FALSE]          \* a data word outside a frame is not stored
      ELSE IF asTdt /\ TdtPacketDone(w) = 1 THEN
         IF ~fr.has THEN [st |-> [ck |-> base.st, fr |-> [fr EXCEPT !.inFrame = FALSE]], errs |-> base.errs \o E(off, "59"), sod |-> base.sod, panic |-> FALSE]
         ELSE IF fr.lanes = << >> THEN
              [st |-> [ck |-> base.st, fr |-> [fr EXCEPT !.inFrame = FALSE, !.has = FALSE]], errs |-> base.errs \o E(fr.start, "701"), sod |-> base.sod, panic |-> FALSE]
         ELSE LET res == FrameResult(fr, fr.barrel) IN
              [st |-> [ck |-> base.st, fr |-> [fr EXCEPT !.inFrame = FALSE, !.has = FALSE, !.lanes = << >>, !.fatal = res.fatal, !.flags = AddFlags(@, res.flags)]],
               errs |-> base.errs \o res.errs, sod |-> base.sod, panic |-> res.panic]
      ELSE [st |-> [ck |-> base.st, fr |-> fr], errs |-> base.errs, sod |-> base.sod, panic |-> FALSE]

RECURSIVE CheckWordsS(_, _, _, _, _, _)
CheckWordsS(ss, r, sod, ws, i, pktOff) ==
   IF i > Len(ws) THEN [st |-> ss, errs |-> << >>, panic |-> FALSE]
   ELSE LET one == CheckWordS(ss, r, sod, ws[i], WordOffset(pktOff, DataFormat(r), i - 1)) IN
        IF one.panic THEN [st |-> one.st, errs |-> one.errs, panic |-> TRUE]
        ELSE LET rest == CheckWordsS(one.st, r, one.sod, ws, i + 1, pktOff)
             IN [st |-> rest.st, errs |-> one.errs \o rest.errs, panic |-> rest.panic]

CheckPacketS(ss, pktOff, r, payload) ==
   LET st == ss.ck
       fv == IF st.firstVer = 256 THEN Version(r) ELSE st.firstVer
       sane == If(SaneViolations(r, fv, TRUE) # {}, E(pktOff, "10"))
       runE == If(RunViolations(st.run, r) # {}, E(pktOff, "11"))
       st1 == [st EXCEPT !.firstVer = fv, !.run = RunNext(st.run, r)]
       barrel == IF ss.fr.barrel = "NONE" THEN BarrelOf(FeeId(r)) ELSE ss.fr.barrel
       ss1 == [ck |-> st1, fr |-> [ss.fr EXCEPT !.barrel = barrel]]
   IN IF payload = << >> THEN [st |-> [ck |-> st1, fr |-> ss.fr], errs |-> sane \o runE, panic |-> FALSE]
      ELSE IF PadErr(payload) THEN [st |-> [ss1 EXCEPT !.ck.fsm = InitState], errs |-> sane \o runE \o E(pktOff, "PAYLOAD"), panic |-> FALSE]
      ELSE LET res == CheckWordsS(ss1, r, TRUE, Cut(DataFormat(r), payload), 1, pktOff)
           IN [st |-> res.st, errs |-> sane \o runE \o res.errs, panic |-> res.panic]
===============================================================================
