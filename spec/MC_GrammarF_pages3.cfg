SPECIFICATION Spec
CONSTANTS Links = {3}
  MaxHbf = 1
  MaxPages = 3
  MaxWords = 4
  Df = 2
  Ver = 7
  Running = TRUE
  Its = TRUE
  Faults = TRUE
  Ob = FALSE
INVARIANTS NoFalseAlarm FaultDetected Dump
VIEW AbsView
CHECK_DEADLOCK FALSE
