SPECIFICATION TSpec
CONSTANTS ReaderCap = 100
  ValCap0 = 128
CONSTRAINT Reached
POSTCONDITION Accepted
CHECK_DEADLOCK FALSE
