-------------------------------- MODULE Reader --------------------------------
(* The input scanner as coded (alice_protocol_reader/src/input_scanner.rs,      *)
(* lib.rs get_array_batch / spawn_reader), one action per step of the code:     *)
(*   LoadRdh      read 64 bytes at the reader position (load_rdh_cru / the skip *)
(*                loop of load_next_rdh_to_filter), count the RDH               *)
(*   CheckOffset  sanity_check_offset_next: offset-to-next - 64 in 0..10000,    *)
(*                else a fatal error ends the scan                              *)
(*   Filter       matching packet: counted, its payload size added;             *)
(*                other packet: SkipSeek (tracker.next + relative seek, or      *)
(*                read-and-discard on a pipe) and back to LoadRdh               *)
(*   Payload      the offset handed over with the packet is the tracker's value *)
(*                AFTER the skip loop; payload skipped by seek / discarded, or  *)
(*                read; a short read is reported ([E100]/[E101]) and the RDH is *)
(*                still delivered                                               *)
(*   Deliver      push to the batch; a full batch (Cap) is sent                 *)
(*   End          end of input / fatal error: the partial batch is sent         *)
(* The reader position `pos` and the tracked offset `tracked` are separate      *)
(* variables, as in the code; that they agree at every LoadRdh is an invariant. *)
(*                                                                              *)
(* Refinement: composed with the intended-behaviour specification Scanner.tla   *)
(* (same case), the outputs must be equal when both have finished (MC_Reader).  *)
EXTENDS Naturals, Integers, Sequences, FiniteSets, TLC

CONSTANTS Cap,           \* packets per batch (real: 100)
          Defect         \* "none" = as coded now.  Two repaired defects are kept as switches so that the model checker SHOWS what they break:
                         \*   "offset-before-skip": the offset attached to a packet is read before the filter skip loop (finding 1)
                         \*   "drop-batch-on-pipe-skip-eof": a pipe ending inside a skipped payload discards the batch (finding 8)
VARIABLES stream, filter, skip, src, cut,         \* the case: packets [link, fee, size], filter [k, v] (as in Scanner), payload skipped?, "file"|"pipe", input length
          pos, tracked,                           \* reader position; MemPosTracker
          pc, cur,                                \* program counter; the RDH being processed [link, size, at (true offset where it was read)]
          batch, sent,                            \* current batch; batches sent so far (sequence of sequences of [off, at, payload])
          cdpoff,                                 \* the tracker's value when load_cdp was entered (only the defect switch uses it)
          rseen, rfilt, rpay, rerrs, rfatal
rvars == << pos, tracked, pc, cur, batch, sent, cdpoff, rseen, rfilt, rpay, rerrs, rfatal >>

RECURSIVE OffOf(_, _)
OffOf(s, k) == IF k = 1 THEN 0 ELSE OffOf(s, k - 1) + s[k - 1].size
\* the packet whose RDH starts at byte p of the (well-framed) stream, 0 if none
PktAt(p) == IF \E k \in 1..Len(stream) : OffOf(stream, k) = p THEN CHOOSE k \in 1..Len(stream) : OffOf(stream, k) = p ELSE 0

\* is_rdh_filter_target (input_scanner.rs): link id equal / FEE id equal / FEE ids equal under the mask 0x703F (layer and stave bits)
Mask703F(fee) == (((fee \div 4096) % 8) * 4096) + (fee % 64)
RMatch(c, f) == CASE f.k = "none" -> TRUE
                  [] f.k = "link" -> c.link = f.v
                  [] f.k = "fee" -> c.fee = f.v
                  [] f.k = "stave" -> Mask703F(c.fee) = Mask703F(((f.v \div 64) * 4096) + (f.v % 64))      \* the option L<l>_<s> is turned into the FEE id l << 12 | s
NoCur == [link |-> 0, fee |-> 0, size |-> 0, at |-> 0]
RInit == /\ pos = 0 /\ tracked = 0 /\ pc = "load" /\ cur = NoCur /\ batch = << >> /\ sent = << >> /\ cdpoff = 0
         /\ rseen = 0 /\ rfilt = 0 /\ rpay = 0 /\ rerrs = << >> /\ rfatal = FALSE

Avail == cut - pos                     \* bytes still readable (negative after a seek beyond the end of a file)
Finish == /\ sent' = IF batch = << >> THEN sent ELSE Append(sent, batch)
          /\ batch' = << >> /\ pc' = "done"

LoadRdh == /\ pc = "load"
           /\ IF Avail < 64 \/ PktAt(pos) = 0
                THEN Finish /\ UNCHANGED << pos, tracked, cur, cdpoff, rseen, rfilt, rpay, rerrs, rfatal >>      \* end of input (also inside an RDH): UnexpectedEof ends the batch
                ELSE /\ cur' = [link |-> stream[PktAt(pos)].link, fee |-> stream[PktAt(pos)].fee, size |-> stream[PktAt(pos)].size, at |-> pos]
                     /\ pos' = pos + 64 /\ rseen' = rseen + 1 /\ pc' = "check"
                     /\ UNCHANGED << tracked, batch, sent, cdpoff, rfilt, rpay, rerrs, rfatal >>
CheckOffset == /\ pc = "check"
               /\ IF cur.size - 64 \in 0..10000 THEN pc' = "filter" /\ UNCHANGED << batch, sent, rfatal >>
                  ELSE rfatal' = TRUE /\ Finish
               /\ UNCHANGED << pos, tracked, cur, cdpoff, rseen, rfilt, rpay, rerrs >>
\* skipping the rest of a packet: the tracker advances by the offset to next; the reader seeks (file: also beyond the end) or reads and discards (pipe)
SkipBytes(n) == pos' = IF src = "file" THEN pos + n ELSE (IF Avail >= n THEN pos + n ELSE cut)
ShortOnPipe(n) == src = "pipe" /\ Avail < n
Filter == /\ pc = "filter"
          /\ IF RMatch(cur, filter)
               THEN /\ rfilt' = (IF filter.k # "none" THEN rfilt + 1 ELSE rfilt) /\ rpay' = rpay + cur.size - 64 /\ pc' = "payload"
                    /\ UNCHANGED << pos, tracked, batch, sent >>
               ELSE \* seek_to_next_rdh in the skip loop: an error (pipe ended inside the skipped payload: InvalidInput) ends the batch, the packets read so far are kept
                    /\ tracked' = tracked + cur.size
                    /\ SkipBytes(cur.size - 64)
                    /\ IF ShortOnPipe(cur.size - 64)
                         THEN IF Defect = "drop-batch-on-pipe-skip-eof" THEN batch' = << >> /\ pc' = "done" /\ UNCHANGED sent ELSE Finish
                         ELSE pc' = "load" /\ UNCHANGED << batch, sent >>
                    /\ UNCHANGED << rfilt, rpay >>
          /\ UNCHANGED << cur, cdpoff, rseen, rerrs, rfatal >>
Payload == /\ pc = "payload"
           /\ LET n == cur.size - 64
                  off == IF Defect = "offset-before-skip" THEN cdpoff ELSE tracked        \* the offset attached to the packet: the tracker after the skip loop
              IN
              /\ tracked' = tracked + cur.size
              /\ IF skip
                   THEN /\ SkipBytes(n)
                        /\ rerrs' = IF ShortOnPipe(n) THEN Append(rerrs, "101") ELSE rerrs
                        /\ batch' = Append(batch, [off |-> off, at |-> cur.at, payload |-> "skipped"])
                   ELSE /\ pos' = (IF Avail >= n THEN pos + n ELSE cut)
                        /\ rerrs' = IF Avail < n THEN Append(rerrs, "100") ELSE rerrs
                        /\ batch' = Append(batch, [off |-> off, at |-> cur.at, payload |-> IF Avail >= n THEN "full" ELSE "empty"])
           /\ pc' = "deliver" /\ UNCHANGED << cur, sent, cdpoff, rseen, rfilt, rpay, rfatal >>
Deliver == /\ pc = "deliver"
           /\ IF Len(batch) = Cap THEN sent' = Append(sent, batch) /\ batch' = << >> ELSE UNCHANGED << sent, batch >>
           /\ pc' = "load" /\ cdpoff' = tracked /\ UNCHANGED << pos, tracked, cur, rseen, rfilt, rpay, rerrs, rfatal >>
RNext == LoadRdh \/ CheckOffset \/ Filter \/ Payload \/ Deliver
RDone == pc = "done"

\* ---- invariants of the coded scanner ----
\* the tracked offset is the reader's true position whenever an RDH can be read (C03/C07: offsets are truthful)
TrackedIsTrue == (pc = "load" /\ Avail >= 64) => tracked = pos
RECURSIVE Flat(_)
Flat(ss) == IF ss = << >> THEN << >> ELSE Head(ss) \o Flat(Tail(ss))
Delivered == Flat(sent) \o batch
\* every delivered packet carries the offset at which its RDH was really read
OffsetsTrue == \A n \in 1..Len(Delivered) : Delivered[n].off = Delivered[n].at
\* batches are full except the last one
BatchesFull == \A b \in 1..Len(sent) : Len(sent[b]) = Cap \/ (b = Len(sent) /\ RDone)
===============================================================================
