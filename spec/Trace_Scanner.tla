---------------------------- MODULE Trace_Scanner ----------------------------
(* C03: the rows a view prints are exactly the packets the scanner specification *)
(* delivers for the case (in order, once each), each row carries the true offset *)
(* of its RDH and every printed header field equals the decoding of the 64 bytes *)
(* stored at that offset.                                                        *)
(* event: [pk : Seq([off, rdh (64 ints)]),  expect : Seq(idx)  (Scanner!out of  *)
(*         the case, computed by TLC),  rows : Seq(row) (parsed from the output),*)
(*         full : BOOLEAN (rows carry all header fields, i.e. `view rdh`)]       *)
EXTENDS Rdh, TLC, Json, IOUtils
Rec == ndJsonDeserialize(IOEnv.TRACE)
VARIABLE l
Init == l = 1
Why(tag, a, b) == PrintT("REJECT " \o ToJson([l |-> l, tag |-> tag, expected |-> a, observed |-> b]))
Next == /\ l <= Len(Rec)
        /\ LET ev == Rec[l]
               n == Len(ev.expect)
           IN IF Len(ev.rows) # n THEN Why("rows", [k \in 1..n |-> ev.pk[ev.expect[k]].off], [k \in 1..Len(ev.rows) |-> ev.rows[k].off])
              ELSE \A k \in 1..n :
                     LET p == ev.pk[ev.expect[k]]  row == ev.rows[k] IN
                     /\ IF row.off = p.off THEN TRUE ELSE Why("offset", p.off, row.off)
                     /\ IF ~ev.full \/ RowMatches(row, p.rdh) THEN TRUE ELSE Why("fields", p.rdh, row)
        /\ l' = l + 1
Spec == Init /\ [][Next]_l
Accepted == IF TLCGet("stats").diameter - 1 = Len(Rec) THEN TRUE
            ELSE Print(<<"TRACE NOT ACCEPTED: matched", TLCGet("stats").diameter - 1, "of", Len(Rec)>>, FALSE)
==============================================================================
