INIT Init
NEXT Next
CONSTANTS MaxLen = 3
  Sizes = {64, 80}
  Pkts <- FeePkts
  Filters <- FeeFilters
  CutAll = FALSE
  Cap = 2
  Defect = "none"
INVARIANTS Refines TrackedIsTrue OffsetsTrue BatchesFull
CHECK_DEADLOCK FALSE
