---- MODULE MC_GrammarF ----
EXTENDS GrammarF, Json
Sized(p) == LET pl == Encode(Df, p.words, (IF Df = 0 THEN 0 ELSE (16 - ((10 * Len(p.words)) % 16)) % 16) + p.xpad)
                sz == 64 + Len(pl)
            IN [i \in 1..64 |-> IF i \in {9, 11} THEN sz % 256 ELSE IF i \in {10, 12} THEN sz \div 256 ELSE p.rdh[i]] \o pl
Dump == (AllDone /\ fault.kind # "none") => PrintT("FSTREAM " \o ToJson([fault |-> fault, pk |-> [k \in 1..Len(stream) |-> Sized(stream[k])]]))
====
