INIT Init
NEXT Next
INVARIANTS TypeOK Refines Dump
CHECK_DEADLOCK FALSE
