INIT Init
NEXT Next
INVARIANTS TypeOK Dump
CHECK_DEADLOCK FALSE
