------------------------------- MODULE Scanner -------------------------------
(* The input scanner: walk of the RDH chain with filter, payload load/skip,    *)
(* truncated input.  Intended behaviour (the properties C03/C14/C18 hold by    *)
(* construction and are checked as invariants).                                *)
EXTENDS Naturals, Sequences, FiniteSets, TLC, Json, SequencesExt

CONSTANTS Lens,          \* stream lengths explored (packets)
          Pkts,          \* packet kinds [link, fee, size]: link id, FEE id, size (offset to next = memory size): 64 = no payload; any multiple of 16 up to 10064 otherwise
          Filters,       \* filter options explored: records [k, v], k = "none" | "link" (--filter-link v) | "fee" (--filter-fee v) | "stave" (--filter-its-stave, v = 64 x layer + stave)
          CutMode        \* "all": the input may end at every boundary of interest; "none": complete inputs only; "tail": complete, or ending in the last packet
Pkt == Pkts
NoFilter == [k |-> "none", v |-> 0]
\* which packets a filter selects (doc: link id / FEE id / layer and stave of the FEE id, whatever the other FEE-id bits)
LayerStave(fee) == (((fee \div 4096) % 8) * 64) + (fee % 64)
PMatch(p, f) == CASE f.k = "none" -> TRUE
                  [] f.k = "link" -> p.link = f.v
                  [] f.k = "fee" -> p.fee = f.v
                  [] f.k = "stave" -> LayerStave(p.fee) = f.v
VARIABLES stream, filter, skip, src, cut,        \* the case (chosen in Init)
          i, out, seen, filt, pay, errs, done     \* the run
vars == << stream, filter, skip, src, cut, i, out, seen, filt, pay, errs, done >>

\* byte offset of the k-th packet (a fold: streams of several hundred packets are explored, too)
OffOf(s, k) == FoldLeft(LAMBDA acc, p : acc + p.size, 0, SubSeq(s, 1, k - 1))
Total(s) == IF s = << >> THEN 0 ELSE OffOf(s, Len(s)) + s[Len(s)].size
Streams == UNION {[1..n -> Pkt] : n \in Lens}
CutsIn(s, K) == {Total(s)} \cup UNION {{OffOf(s, k) + 32, OffOf(s, k) + 64} \cup (IF s[k].size > 64 THEN {OffOf(s, k) + 72} ELSE {}) : k \in K}
Cuts(s) == CASE CutMode = "all" -> CutsIn(s, 1..Len(s)) [] CutMode = "tail" -> CutsIn(s, {Len(s)}) [] CutMode = "none" -> {Total(s)}

Init == /\ stream \in Streams /\ filter \in Filters /\ skip \in BOOLEAN /\ src \in {"file", "pipe"}
        /\ cut \in Cuts(stream) /\ cut >= 64        \* (a first RDH is present; shorter inputs are the C18 boundary cases)
        /\ i = 1 /\ out = << >> /\ seen = 0 /\ filt = 0 /\ pay = 0 /\ errs = << >> /\ done = FALSE

Avail(k) == cut - OffOf(stream, k)
Match(k) == PMatch(stream[k], filter)

Step ==
  /\ ~done
  /\ IF i > Len(stream) \/ Avail(i) < 64
       THEN done' = TRUE /\ UNCHANGED << i, out, seen, filt, pay, errs >>
       ELSE IF ~Match(i)
         THEN \* skipped packet: seek (file) or read-and-discard (pipe)
              /\ seen' = seen + 1
              /\ IF src = "pipe" /\ Avail(i) < stream[i].size
                   THEN done' = TRUE /\ UNCHANGED i       \* end of input inside a skipped payload
                   ELSE i' = i + 1 /\ UNCHANGED done
              /\ UNCHANGED << out, filt, pay, errs >>
         ELSE /\ seen' = seen + 1
              /\ filt' = IF filter.k # "none" THEN filt + 1 ELSE filt
              /\ pay' = pay + stream[i].size - 64
              /\ LET complete == Avail(i) >= stream[i].size IN
                 /\ out' = Append(out, [idx |-> i, off |-> OffOf(stream, i),
                                        payload |-> IF skip THEN "skipped" ELSE IF complete THEN "full" ELSE "empty"])
                 /\ errs' = IF complete THEN errs
                            ELSE IF skip THEN (IF src = "pipe" THEN Append(errs, "101") ELSE errs)   \* a file seek beyond EOF succeeds
                            ELSE Append(errs, "100")
              /\ i' = i + 1 /\ UNCHANGED done
  /\ UNCHANGED << stream, filter, skip, src, cut >>
Next == Step
Spec == Init /\ [][Next]_vars

\* ---- properties ----
Complete(k) == OffOf(stream, k) + stream[k].size <= cut
HdrComplete(k) == OffOf(stream, k) + 64 <= cut
\* C03: exactly the matching RDHs whose header is readable, once each, in order, with their true offsets
ChainExact == done => /\ \A n \in 1..Len(out) : out[n].off = OffOf(stream, out[n].idx) /\ Match(out[n].idx)
                      /\ \A a, b \in 1..Len(out) : a < b => out[a].idx < out[b].idx
\* C18: every complete matching packet before the cut is delivered
PrefixKept == done => \A k \in 1..Len(stream) : (Complete(k) /\ Match(k) /\ (\A j \in 1..k : HdrComplete(j)))
                          => \E n \in 1..Len(out) : out[n].idx = k
Emit == done => PrintT("SCAN " \o ToJson([stream |-> stream, filter |-> filter, skip |-> skip, src |-> src, cut |-> cut,
                                          rows |-> out, seen |-> seen, filt |-> filt, pay |-> pay, errs |-> errs]))
===============================================================================
