------------------------------- MODULE ItsFsm -------------------------------
(* The ITS payload state machine of doc/ITS_payload_fsm_continuous_mode.puml  *)
(* States name the word(s) expected NEXT on the link.                         *)
(*   IHW      : [*] -> IHW, DDW0 -> [*]                                       *)
(*   TDH      : IHW --> TDH                                                   *)
(*   DATA     : after_TDH [no_data==0] -> Data ; after_Data -> Data | TDT     *)
(*              (data section of zero or more words, closed by a TDT)         *)
(*   NODATA   : after_TDH [no_data==1] -> TDH | DDW0 | IHW                    *)
(*   DONE     : after_TDT [packet_done==1] -> TDH | DDW0 | IHW                *)
(*   c_IHW    : after_TDT [packet_done==0] -> Continuation: c_IHW             *)
(*   c_TDH    : c_IHW --> c_TDH                                               *)
(*   c_DATA   : c_TDH --> c_Data ; after_c_Data -> c_Data | c_TDT             *)
EXTENDS Words

States == {"IHW", "TDH", "DATA", "NODATA", "DONE", "c_IHW", "c_TDH", "c_DATA"}
InitState == "IHW"

IsDataId(id) == DataIdValid(id)

\* Which ids are legal in a state
Legal(s, w) ==
    CASE s \in {"IHW", "c_IHW"}   -> Id(w) = ID_IHW
      [] s \in {"TDH", "c_TDH"}   -> Id(w) = ID_TDH
      [] s \in {"DATA", "c_DATA"} -> IsDataId(Id(w)) \/ Id(w) = ID_TDT \/ Id(w) = ID_CDW
      [] s \in {"NODATA", "DONE"} -> Id(w) \in {ID_TDH, ID_IHW, ID_DDW0}

\* Word type the diagram assigns (for legal words); for illegal words the type the
\* word is *judged as*: the single expected type, or "UNKNOWN" in choice states.
Class(s, w) ==
    CASE s = "IHW"    -> "IHW"
      [] s = "c_IHW"  -> "IHW_c"
      [] s = "TDH"    -> "TDH"
      [] s = "c_TDH"  -> "TDH_c"
      [] s \in {"DATA", "c_DATA"} ->
            IF IsDataId(Id(w)) THEN "DATA" ELSE IF Id(w) = ID_TDT THEN "TDT"
            ELSE IF Id(w) = ID_CDW THEN "CDW" ELSE "UNKNOWN"
      [] s \in {"NODATA", "DONE"} ->
            IF Id(w) = ID_TDH THEN "TDH_next" ELSE IF Id(w) = ID_IHW THEN "IHW"
            ELSE IF Id(w) = ID_DDW0 THEN "DDW0" ELSE "UNKNOWN"

\* Successor for legal words (the diagram's edge)
Succ(s, w) ==
    CASE s = "IHW"   -> "TDH"
      [] s = "c_IHW" -> "c_TDH"
      [] s = "TDH"   -> IF TdhNoData(w) = 1 THEN "NODATA" ELSE "DATA"
      [] s = "c_TDH" -> "c_DATA"
      [] s \in {"DATA", "c_DATA"} ->
            IF Id(w) = ID_TDT THEN (IF TdtPacketDone(w) = 1 THEN "DONE" ELSE "c_IHW") ELSE s
      [] s \in {"NODATA", "DONE"} ->
            IF Id(w) = ID_TDH THEN (IF TdhNoData(w) = 1 THEN "NODATA" ELSE "DATA")
            ELSE IF Id(w) = ID_IHW THEN "TDH" ELSE "IHW"      \* DDW0 -> [*] -> IHW

\* Recovery successor for illegal words is NOT prescribed by the diagram. The code's choice
\* (a named deviation, needed to keep validating the rest of a trace):
\*   single-successor states: as if the expected word had been read (bits taken from the word);
\*   DATA/c_DATA: stay; NODATA: as TDH with data -> DATA; DONE: as DDW0 -> IHW.
Recover(s, w) ==
    CASE s \in {"IHW", "c_IHW", "c_TDH"} -> Succ(s, w)
      [] s = "TDH" -> IF TdhNoData(w) = 1 THEN "NODATA" ELSE "DATA"
      [] s \in {"DATA", "c_DATA"} -> s
      [] s = "NODATA" -> "DATA"
      [] s = "DONE" -> "IHW"

Step(s, w) == IF Legal(s, w) THEN Succ(s, w) ELSE Recover(s, w)

\* Error family that must be reported AT an illegal word
IllegalFamily(s) ==
    CASE s \in {"IHW", "c_IHW"} -> "E30"
      [] s \in {"TDH", "c_TDH"} -> "E40"
      [] s \in {"DATA", "c_DATA"} -> "E991"
      [] s = "NODATA" -> "E990"
      [] s = "DONE" -> "E992"

(* ------------------------------------------------------------------------ *)
(* Implementation level: the eleven variants of the generated state machine  *)
(* (its_payload_fsm_cont.rs, sm! table), numbered as verif_state_id() does,  *)
(* and its transition function as coded. Abs is the refinement mapping to    *)
(* the diagram states; MC_ItsFsm checks Abs(ImplStep(i,w)) = Step(Abs(i),w). *)
(*  0 InitialIHW_  1 IHW_By_WasDdw0  2 TDH_By_WasIhw  3 DATA_By_NoDataFalse  *)
(*  4 DATA_By_WasData  5 DDW0_or_TDH_or_IHW_By_NoDataTrue                    *)
(*  6 DDW0_or_TDH_or_IHW_By_WasTDTpacketDoneTrue  7 c_IHW_By_WasTDT..False   *)
(*  8 c_TDH_By_Next  9 c_DATA_By_Next  10 c_DATA_By_WasData                  *)
ImplStates == 0..10
ImplInit == 0
Abs(i) == CASE i \in {0, 1} -> "IHW" [] i = 2 -> "TDH" [] i \in {3, 4} -> "DATA" [] i = 5 -> "NODATA"
            [] i = 6 -> "DONE" [] i = 7 -> "c_IHW" [] i = 8 -> "c_TDH" [] i \in {9, 10} -> "c_DATA"
ImplTdh(w) == IF TdhNoData(w) = 1 THEN 5 ELSE 3
ImplStep(i, w) ==
    CASE i \in {0, 1} -> 2
      [] i = 2 -> ImplTdh(w)
      [] i \in {3, 4} -> IF Id(w) = ID_TDT THEN (IF TdtPacketDone(w) = 1 THEN 6 ELSE 7) ELSE 4
      [] i = 5 -> IF Id(w) = ID_TDH THEN ImplTdh(w) ELSE IF Id(w) = ID_IHW THEN 2 ELSE IF Id(w) = ID_DDW0 THEN 1 ELSE 3
      [] i = 6 -> IF Id(w) = ID_TDH THEN ImplTdh(w) ELSE IF Id(w) = ID_IHW THEN 2 ELSE 1
      [] i = 7 -> 8
      [] i = 8 -> 9
      [] i \in {9, 10} -> IF Id(w) = ID_TDT THEN (IF TdtPacketDone(w) = 1 THEN 6 ELSE 7) ELSE 10
=============================================================================
