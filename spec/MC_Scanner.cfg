SPECIFICATION Spec
CONSTANT MaxLen = 3
INVARIANTS ChainExact PrefixKept Emit
CHECK_DEADLOCK FALSE
