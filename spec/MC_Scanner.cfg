SPECIFICATION Spec
CONSTANTS Lens = {1, 2, 3}
  Sizes = {64, 80}
  Pkts <- LinkPkts
  Filters <- LinkFilters
  CutMode = "all"
INVARIANTS ChainExact PrefixKept Emit
CHECK_DEADLOCK FALSE
