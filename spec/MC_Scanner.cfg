SPECIFICATION Spec
CONSTANTS MaxLen = 3
  Sizes = {64, 80}
  Pkts <- LinkPkts
  Filters <- LinkFilters
  CutAll = TRUE
INVARIANTS ChainExact PrefixKept Emit
CHECK_DEADLOCK FALSE
