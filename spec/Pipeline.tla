------------------------------- MODULE Pipeline -------------------------------
(* Threads and channels of fastPASTA (check mode, view mode, write mode) with   *)
(* stop flag, signals, error cap and fatal errors.  Prototype.                 *)
EXTENDS Naturals, Sequences, FiniteSets, TLC

CONSTANTS
    Links,          \* set of link ids
    Batches,        \* sequence of batches; a batch is a sequence of links (one entry per packet)
    ReaderCap,      \* capacity reader -> analysis/writer (real: 100)
    ValCap,         \* capacity dispatcher -> validator (real: 128 ..)
    Mode,           \* "check" | "view" | "write"
    ErrLinks,       \* links whose packets each produce one error
    ErrCap,         \* 0 = no cap
    FatalAtBatch,   \* 0 = none; else reader hits a fatal framing error while loading this batch
    MaxSignals,     \* number of signals the environment may send
    StdoutMayClose  \* BOOLEAN: stdout reader may go away

VARIABLES
    rpc, rnext,         \* reader
    qRA, rcvH,          \* reader->consumer queue, set of live receiver handles
    rSendAlive,         \* reader's sender handle alive
    apc, abatch, aidx,  \* analysis: pc, current batch, index in batch
    spawned,            \* links with a validator
    qV, vSendAlive,     \* per-link queue and whether dispatcher still holds the sender
    vpc,                \* per-link validator pc
    mpc,                \* main thread pc
    inAlive,            \* scanner's input-stats sender alive (reader thread owns scanner)
    qS, sSenders,       \* stats channel and set of live sender owners
    cpc, errCount, fatalSeen,
    stop, signals, exited,
    stdoutOpen,
    wpc, wout           \* writer

vars == << rpc, rnext, qRA, rcvH, rSendAlive, apc, abatch, aidx, spawned, qV, vSendAlive,
           vpc, mpc, inAlive, qS, sSenders, cpc, errCount, fatalSeen, stop, signals, exited,
           stdoutOpen, wpc, wout >>

NB == Len(Batches)
HasA == Mode \in {"check", "view"}
HasW == Mode = "write"

Init ==
    /\ rpc = "loop" /\ rnext = 1
    /\ qRA = << >>
    /\ rcvH = {"main"} \cup (IF HasA THEN {"A"} ELSE {}) \cup (IF HasW THEN {"W"} ELSE {})
    /\ rSendAlive = TRUE
    /\ apc = (IF HasA THEN "loop" ELSE "done") /\ abatch = << >> /\ aidx = 1
    /\ spawned = {} /\ qV = [l \in Links |-> << >>] /\ vSendAlive = [l \in Links |-> FALSE]
    /\ vpc = [l \in Links |-> "idle"]
    /\ mpc = "drop"
    /\ inAlive = TRUE
    /\ qS = << >>
    /\ sSenders = {"main"} \cup (IF HasA THEN {"A"} ELSE {})
    /\ cpc = "loop" /\ errCount = 0 /\ fatalSeen = FALSE
    /\ stop = FALSE /\ signals = 0 /\ exited = FALSE
    /\ stdoutOpen = TRUE
    /\ wpc = (IF HasW THEN "loop" ELSE "done") /\ wout = << >>

Running == ~exited

(* ---------------- main thread ---------------- *)
MainDrop ==   \* process(): main's receiver clone is dropped (or moved to the writer)
    /\ Running /\ mpc = "drop"
    /\ rcvH' = rcvH \ {"main"}
    /\ mpc' = "forward"
    /\ UNCHANGED << rpc, rnext, qRA, rSendAlive, apc, abatch, aidx, spawned, qV, vSendAlive, vpc,
                    inAlive, qS, sSenders, cpc, errCount, fatalSeen, stop, signals, exited, stdoutOpen, wpc, wout >>

MainForwardEnd ==  \* forward loop ends when the scanner (owned by the reader thread) is dropped
    /\ Running /\ mpc = "forward" /\ ~inAlive
    /\ mpc' = "joinR"
    /\ UNCHANGED << rpc, rnext, qRA, rcvH, rSendAlive, apc, abatch, aidx, spawned, qV, vSendAlive, vpc,
                    inAlive, qS, sSenders, cpc, errCount, fatalSeen, stop, signals, exited, stdoutOpen, wpc, wout >>

MainJoin ==
    /\ Running
    /\ \/ mpc = "joinR" /\ rpc = "done" /\ mpc' = "joinA"
       \/ mpc = "joinA" /\ apc = "done" /\ mpc' = "joinW"
       \/ mpc = "joinW" /\ wpc = "done" /\ mpc' = "ret"
    /\ UNCHANGED << rpc, rnext, qRA, rcvH, rSendAlive, apc, abatch, aidx, spawned, qV, vSendAlive, vpc,
                    inAlive, qS, sSenders, cpc, errCount, fatalSeen, stop, signals, exited, stdoutOpen, wpc, wout >>

MainReturn ==  \* init_processing returns: main's stats sender dropped; then join controller
    /\ Running /\ mpc = "ret"
    /\ sSenders' = sSenders \ {"main"}
    /\ mpc' = "joinC"
    /\ UNCHANGED << rpc, rnext, qRA, rcvH, rSendAlive, apc, abatch, aidx, spawned, qV, vSendAlive, vpc,
                    inAlive, qS, cpc, errCount, fatalSeen, stop, signals, exited, stdoutOpen, wpc, wout >>

MainExit ==
    /\ Running /\ mpc = "joinC" /\ cpc = "done"
    /\ mpc' = "done" /\ exited' = TRUE
    /\ UNCHANGED << rpc, rnext, qRA, rcvH, rSendAlive, apc, abatch, aidx, spawned, qV, vSendAlive, vpc,
                    inAlive, qS, sSenders, cpc, errCount, fatalSeen, stop, signals, stdoutOpen, wpc, wout >>

(* ---------------- reader thread ---------------- *)
ReaderEnd(pcn) ==  \* leaving the loop: scanner and sender dropped
    /\ rpc' = pcn /\ rSendAlive' = FALSE /\ inAlive' = FALSE

ReaderLoop ==
    /\ Running /\ rpc = "loop"
    /\ IF stop \/ rnext > NB
          THEN /\ ReaderEnd("done") /\ UNCHANGED << rnext, qS >>
          ELSE IF FatalAtBatch = rnext
                  THEN \* fatal framing error: Fatal goes to stats (via forwarder, abstracted), batch is short -> last
                       /\ qS' = Append(qS, [k |-> "fatal", from |-> "main"])
                       /\ rpc' = "sendlast" /\ UNCHANGED << rnext, rSendAlive, inAlive >>
                  ELSE /\ rpc' = IF rnext = NB THEN "sendlast" ELSE "send"
                       /\ UNCHANGED << rnext, rSendAlive, inAlive, qS >>
    /\ UNCHANGED << qRA, rcvH, apc, abatch, aidx, spawned, qV, vSendAlive, vpc, mpc, sSenders,
                    cpc, errCount, fatalSeen, stop, signals, exited, stdoutOpen, wpc, wout >>

ReaderSend ==
    /\ Running /\ rpc \in {"send", "sendlast"}
    /\ \/ /\ rcvH = {}                    \* all receivers gone: send fails, break
          /\ ReaderEnd("done") /\ UNCHANGED << qRA, rnext >>
       \/ /\ rcvH # {} /\ Len(qRA) < ReaderCap
          /\ qRA' = Append(qRA, Batches[rnext])
          /\ rnext' = rnext + 1
          /\ IF rpc = "sendlast" THEN ReaderEnd("done")
                                 ELSE rpc' = "loop" /\ UNCHANGED << rSendAlive, inAlive >>
    /\ UNCHANGED << rcvH, apc, abatch, aidx, spawned, qV, vSendAlive, vpc, mpc, qS, sSenders,
                    cpc, errCount, fatalSeen, stop, signals, exited, stdoutOpen, wpc, wout >>

(* ---------------- analysis thread ---------------- *)
AnalysisLoop ==
    /\ Running /\ apc = "loop"
    /\ IF stop THEN apc' = "join" /\ UNCHANGED << qRA, abatch, aidx >>
       ELSE \/ /\ qRA # << >>
               /\ abatch' = Head(qRA) /\ qRA' = Tail(qRA) /\ aidx' = 1
               /\ apc' = IF Mode = "check" THEN "dispatch" ELSE "view"
            \/ /\ qRA = << >> /\ ~rSendAlive
               /\ apc' = "join" /\ UNCHANGED << qRA, abatch, aidx >>
    /\ UNCHANGED << rpc, rnext, rcvH, rSendAlive, spawned, qV, vSendAlive, vpc, mpc, inAlive, qS, sSenders,
                    cpc, errCount, fatalSeen, stop, signals, exited, stdoutOpen, wpc, wout >>

AnalysisDispatch ==
    /\ Running /\ apc = "dispatch"
    /\ IF aidx > Len(abatch)
          THEN apc' = "loop" /\ UNCHANGED << aidx, spawned, qV, vSendAlive, vpc, sSenders >>
          ELSE LET l == abatch[aidx] IN
               IF l \notin spawned
                  THEN /\ spawned' = spawned \cup {l}
                       /\ vSendAlive' = [vSendAlive EXCEPT ![l] = TRUE]
                       /\ vpc' = [vpc EXCEPT ![l] = "loop"]
                       /\ sSenders' = sSenders \cup {l}
                       /\ UNCHANGED << aidx, qV, apc >>
                  ELSE /\ Len(qV[l]) < ValCap           \* blocks while full (validator never drops its receiver early)
                       /\ qV' = [qV EXCEPT ![l] = Append(@, l)]
                       /\ aidx' = aidx + 1
                       /\ UNCHANGED << spawned, vSendAlive, vpc, sSenders, apc >>
    /\ UNCHANGED << rpc, rnext, qRA, rcvH, rSendAlive, abatch, mpc, inAlive, qS,
                    cpc, errCount, fatalSeen, stop, signals, exited, stdoutOpen, wpc, wout >>

AnalysisView ==
    /\ Running /\ apc = "view"
    /\ IF stdoutOpen THEN qS' = qS
                     ELSE qS' = Append(qS, [k |-> "fatal", from |-> "A"])   \* write error -> Fatal
    /\ apc' = "loop"
    /\ UNCHANGED << rpc, rnext, qRA, rcvH, rSendAlive, abatch, aidx, spawned, qV, vSendAlive, vpc, mpc, inAlive,
                    sSenders, cpc, errCount, fatalSeen, stop, signals, exited, stdoutOpen, wpc, wout >>

AnalysisJoin ==   \* drop all validator senders, wait for validators, then thread ends (receiver + sender handles dropped)
    /\ Running /\ apc = "join"
    /\ vSendAlive' = [l \in Links |-> FALSE]
    /\ apc' = "joining"
    /\ UNCHANGED << rpc, rnext, qRA, rcvH, rSendAlive, abatch, aidx, spawned, qV, vpc, mpc, inAlive, qS, sSenders,
                    cpc, errCount, fatalSeen, stop, signals, exited, stdoutOpen, wpc, wout >>

AnalysisEnd ==
    /\ Running /\ apc = "joining"
    /\ \A l \in spawned : vpc[l] = "done"
    /\ apc' = "done"
    /\ rcvH' = rcvH \ {"A"}
    /\ sSenders' = sSenders \ {"A"}
    /\ UNCHANGED << rpc, rnext, qRA, rSendAlive, abatch, aidx, spawned, qV, vSendAlive, vpc, mpc, inAlive, qS,
                    cpc, errCount, fatalSeen, stop, signals, exited, stdoutOpen, wpc, wout >>

(* ---------------- validators ---------------- *)
Validator(l) ==
    /\ Running /\ vpc[l] = "loop"
    /\ \/ /\ qV[l] # << >>
          /\ qV' = [qV EXCEPT ![l] = Tail(@)]
          /\ qS' = IF l \in ErrLinks THEN Append(qS, [k |-> "err", from |-> l]) ELSE qS
          /\ UNCHANGED << vpc, sSenders >>
       \/ /\ qV[l] = << >> /\ ~vSendAlive[l]
          /\ vpc' = [vpc EXCEPT ![l] = "done"]
          /\ sSenders' = sSenders \ {l}
          /\ UNCHANGED << qV, qS >>
    /\ UNCHANGED << rpc, rnext, qRA, rcvH, rSendAlive, apc, abatch, aidx, spawned, vSendAlive, mpc, inAlive,
                    cpc, errCount, fatalSeen, stop, signals, exited, stdoutOpen, wpc, wout >>

(* ---------------- collector ---------------- *)
Collector ==
    /\ Running /\ cpc = "loop"
    /\ \/ /\ qS # << >>
          /\ LET m == Head(qS) IN
             /\ qS' = Tail(qS)
             /\ IF m.k = "err" /\ ~fatalSeen
                   THEN /\ errCount' = errCount + 1
                        /\ stop' = (stop \/ (ErrCap > 0 /\ errCount + 1 = ErrCap))
                        /\ UNCHANGED fatalSeen
                   ELSE IF m.k = "fatal" /\ ~fatalSeen
                           THEN fatalSeen' = TRUE /\ stop' = TRUE /\ UNCHANGED errCount
                           ELSE UNCHANGED << errCount, fatalSeen, stop >>
          /\ UNCHANGED cpc
       \/ /\ qS = << >> /\ sSenders = {}
          /\ cpc' = "done"
          /\ UNCHANGED << qS, errCount, fatalSeen, stop >>
    /\ UNCHANGED << rpc, rnext, qRA, rcvH, rSendAlive, apc, abatch, aidx, spawned, qV, vSendAlive, vpc, mpc, inAlive,
                    sSenders, signals, exited, stdoutOpen, wpc, wout >>

(* ---------------- writer ---------------- *)
Writer ==
    /\ Running /\ wpc = "loop"
    /\ \/ /\ qRA # << >>
          /\ qRA' = Tail(qRA)
          /\ IF stop THEN /\ wpc' = "done" /\ rcvH' = rcvH \ {"W"} /\ UNCHANGED wout   \* break; drop flushes buffer
                     ELSE /\ wout' = wout \o Head(qRA) /\ UNCHANGED << wpc, rcvH >>
       \/ /\ qRA = << >> /\ ~rSendAlive
          /\ wpc' = "done" /\ rcvH' = rcvH \ {"W"} /\ UNCHANGED << qRA, wout >>
    /\ UNCHANGED << rpc, rnext, rSendAlive, apc, abatch, aidx, spawned, qV, vSendAlive, vpc, mpc, inAlive, qS, sSenders,
                    cpc, errCount, fatalSeen, stop, signals, exited, stdoutOpen >>

(* ---------------- environment ---------------- *)
Signal ==
    /\ Running /\ signals < MaxSignals
    /\ signals' = signals + 1
    /\ stop' = TRUE
    /\ exited' = (signals + 1 > 1)      \* second signal: process::exit(1)
    /\ UNCHANGED << rpc, rnext, qRA, rcvH, rSendAlive, apc, abatch, aidx, spawned, qV, vSendAlive, vpc, mpc, inAlive,
                    qS, sSenders, cpc, errCount, fatalSeen, stdoutOpen, wpc, wout >>

CloseStdout ==
    /\ Running /\ StdoutMayClose /\ stdoutOpen
    /\ stdoutOpen' = FALSE
    /\ UNCHANGED << rpc, rnext, qRA, rcvH, rSendAlive, apc, abatch, aidx, spawned, qV, vSendAlive, vpc, mpc, inAlive,
                    qS, sSenders, cpc, errCount, fatalSeen, stop, signals, exited, wpc, wout >>

Done == exited /\ UNCHANGED vars

Next == MainDrop \/ MainForwardEnd \/ MainJoin \/ MainReturn \/ MainExit
        \/ ReaderLoop \/ ReaderSend
        \/ AnalysisLoop \/ AnalysisDispatch \/ AnalysisView \/ AnalysisJoin \/ AnalysisEnd
        \/ (\E l \in Links : Validator(l))
        \/ Collector \/ Writer \/ Signal \/ CloseStdout \/ Done

Fair == /\ WF_vars(MainDrop) /\ WF_vars(MainForwardEnd) /\ WF_vars(MainJoin) /\ WF_vars(MainReturn) /\ WF_vars(MainExit)
        /\ WF_vars(ReaderLoop) /\ WF_vars(ReaderSend)
        /\ WF_vars(AnalysisLoop) /\ WF_vars(AnalysisDispatch) /\ WF_vars(AnalysisView) /\ WF_vars(AnalysisJoin) /\ WF_vars(AnalysisEnd)
        /\ \A l \in Links : WF_vars(Validator(l))
        /\ WF_vars(Collector) /\ WF_vars(Writer)

Spec == Init /\ [][Next]_vars /\ Fair

Terminates == <>exited

\* Safety: when the process exits normally every worker thread has finished.
AllJoined == (exited /\ mpc = "done") => (rpc = "done" /\ apc = "done" /\ wpc = "done" /\ cpc = "done"
                                            /\ \A l \in spawned : vpc[l] = "done")
\* Without early stop every packet of an error link is counted.
TotalPackets(l) == LET cnt[i \in 0..NB] == IF i = 0 THEN 0 ELSE cnt[i-1] + Cardinality({j \in 1..Len(Batches[i]) : Batches[i][j] = l}) IN cnt[NB]
NoLoss == (exited /\ mpc = "done" /\ ~stop /\ Mode = "check")
             => errCount = LET S == ErrLinks IN
                           LET f[T \in SUBSET S] == IF T = {} THEN 0 ELSE LET x == CHOOSE x \in T : TRUE IN TotalPackets(x) + f[T \ {x}] IN f[S]
WholeOut == \A i \in 1..Len(wout) : wout[i] \in Links
===============================================================================
