------------------------------ MODULE MC_Words ------------------------------
EXTENDS Words, TLC, Json, FiniteSets
VARIABLE c      \* the case: [kind, a, b]

Zero9 == [i \in 1..9 |-> 0]
WithId(body9, id) == body9 \o <<id>>
SetBit(body, n) == [i \in 1..9 |-> IF i = (n \div 8) + 1 /\ Bit(body[i], n % 8) = 0 THEN body[i] + Pow2(n % 8) ELSE body[i]]
ValidBody(t) == CASE t = "IHW" -> <<7, 0, 0, 0, 0, 0, 0, 0, 0>>
                 [] t = "TDH" -> <<3, 16, 5, 0, 1, 2, 3, 4, 0>>
                 [] t = "TDT" -> <<0, 0, 0, 0, 0, 0, 0, 0, 1>>
                 [] t = "DDW0" -> <<0, 0, 0, 0, 0, 0, 0, 0, 0>>
TypeId(t) == CASE t = "IHW" -> ID_IHW [] t = "TDH" -> ID_TDH [] t = "TDT" -> ID_TDT [] t = "DDW0" -> ID_DDW0
Types == {"IHW", "TDH", "TDT", "DDW0"}

Cases ==      [kind : {"id"}, t : Types, a : 0..255, b : {0}]
         \cup [kind : {"bit0"}, t : Types, a : 0..71, b : {0}]         \* one bit set in an all-zero body
         \cup [kind : {"bitv"}, t : Types, a : 0..71, b : {0}]         \* one bit set on top of a valid body
         \cup {x \in [kind : {"two"}, t : Types, a : 0..71, b : 0..71] : x.a < x.b}
         \cup [kind : {"ones"}, t : Types, a : {0}, b : {0}]

WordOf(x) == CASE x.kind = "id"   -> WithId(ValidBody(x.t), x.a)
               [] x.kind = "bit0" -> WithId(SetBit(Zero9, x.a), TypeId(x.t))
               [] x.kind = "bitv" -> WithId(SetBit(ValidBody(x.t), x.a), TypeId(x.t))
               [] x.kind = "two"  -> WithId(SetBit(SetBit(Zero9, x.a), x.b), TypeId(x.t))
               [] x.kind = "ones" -> WithId([i \in 1..9 |-> 255], TypeId(x.t))

Verdict(t, w) == CASE t = "IHW" -> IhwSane(w) [] t = "TDH" -> TdhSane(w) [] t = "TDT" -> TdtSane(w) [] t = "DDW0" -> Ddw0Sane(w)

Init == c \in Cases
Next == UNCHANGED c
Emit == PrintT("CASE " \o ToJson([t |-> c.t, kind |-> c.kind, w |-> WordOf(c), sane |-> Verdict(c.t, WordOf(c))]))
=============================================================================
