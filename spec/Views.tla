--------------------------------- MODULE Views ---------------------------------
(* What the ITS readout-frame views must print, computed from the raw bytes.    *)
EXTENDS Words, Rdh, Payload

RdhTrig(r) == LET t0 == B(r, 32) t1 == B(r, 33) IN
              IF Bit(t1, 1) = 1 THEN "SOC" ELSE IF Bit(t0, 7) = 1 THEN "SOT" ELSE IF Bit(t0, 1) = 1 THEN "HB"
              ELSE IF Bit(t0, 4) = 1 THEN "PhT" ELSE "Other"
RdhLanes(r) == LET d == B(r, 48) IN
               IF Bit(d, 3) = 1 THEN "Fatal" ELSE IF Bit(d, 2) = 1 THEN "Error" ELSE IF Bit(d, 1) = 1 THEN "Warning"
               ELSE IF Bit(d, 0) = 1 THEN "Missing" ELSE "-"
RdhRow(off, r) == [k |-> "RDH", off |-> off, ver |-> Version(r), stop |-> Stop(r), layer |-> Layer(FeeId(r)), stave |-> Stave(FeeId(r)),
                   trig |-> RdhTrig(r), link |-> LinkId(r), lanes |-> RdhLanes(r), orbit |-> OrbitBytes(r), bc |-> Bc(r)]

TdhTrig(w) == IF Bit(B(w, 1), 1) = 1 THEN "SOC" ELSE IF Bit(B(w, 1), 4) = 1 THEN "Internal" ELSE IF Bit(B(w, 0), 4) = 1 THEN "PhT" ELSE "Other"
PairFatal(b) == \E k \in {0, 2, 4, 6} : Bit(b, k) = 1 /\ Bit(b, k + 1) = 1
AnyBits(b, odd) == \E k \in {0, 2, 4, 6} : Bit(b, IF odd THEN k + 1 ELSE k) = 1
LaneStatus(w) == IF \E i \in 0..6 : PairFatal(B(w, i)) THEN "Fatal"
                 ELSE IF \E i \in 0..6 : AnyBits(B(w, i), TRUE) THEN "Error"
                 ELSE IF \E i \in 0..6 : AnyBits(B(w, i), FALSE) THEN "Warning" ELSE "-"
ViewIsData(id) == id \in (32..40) \cup (64..70) \cup (72..78) \cup (80..86) \cup (88..94)
WordRow(off, w, withData) ==
   LET id == Id(w) IN
   IF ViewIsData(id) THEN (IF withData THEN << [k |-> "DATA", off |-> off, w |-> w, a |-> << >>] >> ELSE << >>)
   ELSE IF id = ID_TDH THEN << [k |-> "TDH", off |-> off, w |-> w,
                                a |-> << TdhTrig(w), IF TdhCont(w) = 1 THEN "Cont." ELSE "", IF TdhNoData(w) = 1 THEN "No data" ELSE "Data!" >>,
                                orbit |-> TdhOrbitBytes(w), bc |-> TdhBc(w)] >>
   ELSE IF id = ID_TDT THEN << [k |-> "TDT", off |-> off, w |-> w, a |-> << IF TdtPacketDone(w) = 1 THEN "Complete" ELSE "Split", LaneStatus(w) >>] >>
   ELSE IF id = ID_IHW THEN << [k |-> "IHW", off |-> off, w |-> w, a |-> << >>] >>
   ELSE IF id = ID_DDW0 THEN << [k |-> "DDW", off |-> off, w |-> w, a |-> << LaneStatus(w) >>] >>
   ELSE IF id = ID_CDW THEN << [k |-> "CDW", off |-> off, w |-> w, a |-> << >>] >>
   ELSE << >>                                     \* unknown id: no row (an error is logged instead)
RECURSIVE WordRows(_, _, _, _, _)
WordRows(ws, i, pktOff, df, withData) ==
   IF i > Len(ws) THEN << >> ELSE WordRow(WordOffset(pktOff, df, i - 1), ws[i], withData) \o WordRows(ws, i + 1, pktOff, df, withData)
\* a payload ending in more than 15 bytes of 0xFF cannot be cut: the RDH row is printed, a fatal error is reported and the view ends there (ViewEnds)
ViewEnds(payload) == PadErr(payload)
PacketRows(off, r, payload, withData) == IF ViewEnds(payload) THEN << RdhRow(off, r) >>
                                         ELSE << RdhRow(off, r) >> \o WordRows(Cut(DataFormat(r), payload), 1, off, DataFormat(r), withData)
================================================================================
