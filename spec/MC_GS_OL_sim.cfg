SPECIFICATION Spec
CONSTANTS Barrel = "OL"
  MaxHbf = 2
  MaxPages = 3
  MaxWords = 20
  Df = 2
  Ver = 7
INVARIANTS NoFalseAlarm Dump

CHECK_DEADLOCK FALSE
