------------------------------ MODULE MC_Reader ------------------------------
(* The scanner as coded (Reader) refines the scanner as intended (Scanner): for  *)
(* every case the intended specification enumerates, the coded scanner delivers  *)
(* the same packets with the same offsets and payload status, the same counters  *)
(* and the same input errors; and its own invariants hold on the way.            *)
EXTENDS Reader
CONSTANTS Lens, Sizes, Pkts, Filters, CutMode
VARIABLES i, out, seen, filt, pay, errs, done
S == INSTANCE Scanner
\* the configurations' packet kinds and filters (as in MC_Scanner)
LinkPkts == [link : {1, 2}, fee : {4101}, size : Sizes]
LinkFilters == {S!NoFilter} \cup {[k |-> "link", v |-> n] : n \in 1..3}
FeePkts == {p \in [link : {1, 2}, fee : {4101, 4357, 8197}, size : Sizes] : << p.link, p.fee >> \in {<<1, 4101>>, <<1, 4357>>, <<2, 4101>>, <<2, 8197>>}}
FeeFilters == {[k |-> "fee", v |-> f] : f \in {4101, 4357, 8197, 4102}} \cup {[k |-> "stave", v |-> x] : x \in {69, 133, 197}}
              \cup {[k |-> "link", v |-> n] : n \in 1..2}        \* (link filters on streams where a FEE id is not tied to one link)
svars == << i, out, seen, filt, pay, errs, done >>
case == << stream, filter, skip, src, cut >>
Init == S!Init /\ RInit
\* the two machines are deterministic: the intended one runs first, then the coded one
Next == \/ ~done /\ S!Step /\ UNCHANGED rvars
        \/ done /\ RNext /\ UNCHANGED svars /\ UNCHANGED case
AsOut == [n \in 1..Len(Delivered) |-> [idx |-> PktAt(Delivered[n].at), off |-> Delivered[n].off, payload |-> Delivered[n].payload]]
Refines == (done /\ RDone) => /\ AsOut = out /\ rseen = seen /\ rfilt = filt /\ rpay = pay /\ rerrs = errs
Terminal == done /\ RDone
==============================================================================
