SPECIFICATION Spec
CONSTANTS Barrel = "ML"
  MaxHbf = 2
  MaxPages = 3
  MaxWords = 14
  Df = 2
  Ver = 7
INVARIANTS NoFalseAlarm Dump

CHECK_DEADLOCK FALSE
