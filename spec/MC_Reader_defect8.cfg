INIT Init
NEXT Next
CONSTANTS Lens = {1, 2, 3}
  Sizes = {64, 80}
  Pkts <- LinkPkts
  Filters <- LinkFilters
  CutMode = "all"
  Cap = 2
  Defect = "drop-batch-on-pipe-skip-eof"
INVARIANTS Refines TrackedIsTrue OffsetsTrue BatchesFull
CHECK_DEADLOCK FALSE
