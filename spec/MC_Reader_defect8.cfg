INIT Init
NEXT Next
CONSTANTS MaxLen = 3
  Sizes = {64, 80}
  Pkts <- LinkPkts
  Filters <- LinkFilters
  CutAll = TRUE
  Cap = 2
  Defect = "drop-batch-on-pipe-skip-eof"
INVARIANTS Refines TrackedIsTrue OffsetsTrue BatchesFull
CHECK_DEADLOCK FALSE
