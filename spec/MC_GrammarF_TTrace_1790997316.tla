---- MODULE MC_GrammarF_TTrace_1790997316 ----
EXTENDS Sequences, MC_GrammarF, TLCExt, Toolbox, Naturals, TLC

_expression ==
    LET MC_GrammarF_TEExpression == INSTANCE MC_GrammarF_TEExpression
    IN MC_GrammarF_TEExpression!expression
----

_trace ==
    LET MC_GrammarF_TETrace == INSTANCE MC_GrammarF_TETrace
    IN MC_GrammarF_TETrace!trace
----

_inv ==
    ~(
        TLCGet("level") = Len(_TETrace)
        /\
        errs = (<<>>)
        /\
        noff = (0)
        /\
        stream = (<<[words |-> <<<<7, 0, 0, 0, 0, 0, 0, 0, 0, 224>>>>, xpad |-> 0, rdh |-> <<7, 64, 10, 16, 0, 32, 0, 0, 64, 0, 64, 0, 3, 0, 24, 0, 0, 0, 0, 0, 233, 3, 0, 0, 2, 0, 0, 0, 0, 0, 0, 0, 3, 106, 0, 0, 0, 0, 0, 0, 0, 0, 0, 0, 0, 0, 0, 0, 15, 8, 0, 1, 0, 0, 0, 0, 0, 0, 0, 0, 0, 0, 0, 0>>, link |-> 3], [words |-> <<>>, xpad |-> 0, rdh |-> <<7, 64, 15, 18, 0, 32, 0, 0, 64, 0, 64, 0, 8, 0, 24, 0, 235, 13, 0, 0, 233, 3, 0, 0, 2, 0, 0, 0, 0, 0, 0, 0, 3, 106, 0, 0, 0, 0, 1, 0, 0, 0, 0, 0, 0, 0, 0, 0, 15, 8, 0, 1, 0, 0, 0, 0, 0, 0, 0, 0, 0, 0, 0, 0>>, link |-> 8]>>)
        /\
        g = ((3 :> [n |-> 1, hbf |-> 1, page |-> 0, fsm |-> "TDH", rbc |-> 0, last |-> [bc |-> 0, orbit |-> <<>>, tt |-> 0, has |-> FALSE, internal |-> 0, cont |-> 0], open |-> TRUE, sod |-> TRUE, cdwDone |-> FALSE, dataSeen |-> FALSE, done |-> FALSE, cur |-> 1, poff |-> 0, stop |-> 0, padf |-> FALSE] @@ 8 :> [n |-> 0, hbf |-> 1, page |-> 0, fsm |-> "IHW", rbc |-> 3563, last |-> [bc |-> 0, orbit |-> <<>>, tt |-> 0, has |-> FALSE, internal |-> 0, cont |-> 0], open |-> TRUE, sod |-> TRUE, cdwDone |-> FALSE, dataSeen |-> FALSE, done |-> FALSE, cur |-> 2, poff |-> 0, stop |-> 0, padf |-> FALSE]))
        /\
        chk = ((3 :> [fsm |-> "TDH", firstVer |-> 7, tdh |-> [bc |-> 0, orbit |-> <<>>, tt |-> 0, has |-> FALSE, internal |-> 0, cont |-> 0], cdw |-> [has |-> FALSE, user |-> <<>>, idx |-> 0], run |-> [n |-> 1, exp |-> 1, incr |-> 1, hasLast |-> TRUE, lstop |-> 0, lorbit |-> <<233, 3, 0, 0>>, ltrig |-> <<3, 106, 0, 0>>, lfee |-> 4106], lanes |-> 7, prev |-> [bc |-> 0, orbit |-> <<>>, tt |-> 0, has |-> FALSE, internal |-> 0, cont |-> 0], pint |-> [bc |-> 0, has |-> FALSE], period |-> 70000] @@ 8 :> [fsm |-> "IHW", firstVer |-> 7, tdh |-> [bc |-> 0, orbit |-> <<>>, tt |-> 0, has |-> FALSE, internal |-> 0, cont |-> 0], cdw |-> [has |-> FALSE, user |-> <<>>, idx |-> 0], run |-> [n |-> 1, exp |-> 0, incr |-> 1, hasLast |-> TRUE, lstop |-> 1, lorbit |-> <<233, 3, 0, 0>>, ltrig |-> <<3, 106, 0, 0>>, lfee |-> 4623], lanes |-> 0, prev |-> [bc |-> 0, orbit |-> <<>>, tt |-> 0, has |-> FALSE, internal |-> 0, cont |-> 0], pint |-> [bc |-> 0, has |-> FALSE], period |-> 70000]))
        /\
        fault = ([kind |-> "rdh_stop1_on_ihw_page", off |-> 64, fam |-> "12", pending |-> FALSE])
    )
----

_init ==
    /\ g = _TETrace[1].g
    /\ chk = _TETrace[1].chk
    /\ errs = _TETrace[1].errs
    /\ stream = _TETrace[1].stream
    /\ fault = _TETrace[1].fault
    /\ noff = _TETrace[1].noff
----

_next ==
    /\ \E i,j \in DOMAIN _TETrace:
        /\ \/ /\ j = i + 1
              /\ i = TLCGet("level")
        /\ g  = _TETrace[i].g
        /\ g' = _TETrace[j].g
        /\ chk  = _TETrace[i].chk
        /\ chk' = _TETrace[j].chk
        /\ errs  = _TETrace[i].errs
        /\ errs' = _TETrace[j].errs
        /\ stream  = _TETrace[i].stream
        /\ stream' = _TETrace[j].stream
        /\ fault  = _TETrace[i].fault
        /\ fault' = _TETrace[j].fault
        /\ noff  = _TETrace[i].noff
        /\ noff' = _TETrace[j].noff

\* Uncomment the ASSUME below to write the states of the error trace
\* to the given file in Json format. Note that you can pass any tuple
\* to `JsonSerialize`. For example, a sub-sequence of _TETrace.
    \* ASSUME
    \*     LET J == INSTANCE Json
    \*         IN J!JsonSerialize("MC_GrammarF_TTrace_1790997316.json", _TETrace)

=============================================================================

 Note that you can extract this module `MC_GrammarF_TEExpression`
  to a dedicated file to reuse `expression` (the module in the 
  dedicated `MC_GrammarF_TEExpression.tla` file takes precedence 
  over the module `MC_GrammarF_TEExpression` below).

---- MODULE MC_GrammarF_TEExpression ----
EXTENDS Sequences, MC_GrammarF, TLCExt, Toolbox, Naturals, TLC

expression == 
    [
        \* To hide variables of the `MC_GrammarF` spec from the error trace,
        \* remove the variables below.  The trace will be written in the order
        \* of the fields of this record.
        g |-> g
        ,chk |-> chk
        ,errs |-> errs
        ,stream |-> stream
        ,fault |-> fault
        ,noff |-> noff
        
        \* Put additional constant-, state-, and action-level expressions here:
        \* ,_stateNumber |-> _TEPosition
        \* ,_gUnchanged |-> g = g'
        
        \* Format the `g` variable as Json value.
        \* ,_gJson |->
        \*     LET J == INSTANCE Json
        \*     IN J!ToJson(g)
        
        \* Lastly, you may build expressions over arbitrary sets of states by
        \* leveraging the _TETrace operator.  For example, this is how to
        \* count the number of times a spec variable changed up to the current
        \* state in the trace.
        \* ,_gModCount |->
        \*     LET F[s \in DOMAIN _TETrace] ==
        \*         IF s = 1 THEN 0
        \*         ELSE IF _TETrace[s].g # _TETrace[s-1].g
        \*             THEN 1 + F[s-1] ELSE F[s-1]
        \*     IN F[_TEPosition - 1]
    ]

=============================================================================



Parsing and semantic processing can take forever if the trace below is long.
 In this case, it is advised to uncomment the module below to deserialize the
 trace from a generated binary file.

\*
\*---- MODULE MC_GrammarF_TETrace ----
\*EXTENDS IOUtils, MC_GrammarF, TLC
\*
\*trace == IODeserialize("MC_GrammarF_TTrace_1790997316.bin", TRUE)
\*
\*=============================================================================
\*

---- MODULE MC_GrammarF_TETrace ----
EXTENDS MC_GrammarF, TLC

trace == 
    <<
    ([errs |-> <<>>,noff |-> 0,stream |-> <<>>,g |-> (3 :> [n |-> 0, hbf |-> 1, page |-> 0, fsm |-> "IHW", rbc |-> 0, last |-> [bc |-> 0, orbit |-> <<>>, tt |-> 0, has |-> FALSE, internal |-> 0, cont |-> 0], open |-> FALSE, sod |-> TRUE, cdwDone |-> FALSE, dataSeen |-> FALSE, done |-> FALSE, cur |-> 0, poff |-> 0, stop |-> 0, padf |-> FALSE] @@ 8 :> [n |-> 0, hbf |-> 1, page |-> 0, fsm |-> "IHW", rbc |-> 0, last |-> [bc |-> 0, orbit |-> <<>>, tt |-> 0, has |-> FALSE, internal |-> 0, cont |-> 0], open |-> FALSE, sod |-> TRUE, cdwDone |-> FALSE, dataSeen |-> FALSE, done |-> FALSE, cur |-> 0, poff |-> 0, stop |-> 0, padf |-> FALSE]),chk |-> (3 :> [fsm |-> "IHW", firstVer |-> 256, tdh |-> [bc |-> 0, orbit |-> <<>>, tt |-> 0, has |-> FALSE, internal |-> 0, cont |-> 0], cdw |-> [has |-> FALSE, user |-> <<>>, idx |-> 0], run |-> [n |-> 0, exp |-> 0, incr |-> 1, hasLast |-> FALSE, lstop |-> 0, lorbit |-> <<>>, ltrig |-> <<>>, lfee |-> 0], lanes |-> 0, prev |-> [bc |-> 0, orbit |-> <<>>, tt |-> 0, has |-> FALSE, internal |-> 0, cont |-> 0], pint |-> [bc |-> 0, has |-> FALSE], period |-> 70000] @@ 8 :> [fsm |-> "IHW", firstVer |-> 256, tdh |-> [bc |-> 0, orbit |-> <<>>, tt |-> 0, has |-> FALSE, internal |-> 0, cont |-> 0], cdw |-> [has |-> FALSE, user |-> <<>>, idx |-> 0], run |-> [n |-> 0, exp |-> 0, incr |-> 1, hasLast |-> FALSE, lstop |-> 0, lorbit |-> <<>>, ltrig |-> <<>>, lfee |-> 0], lanes |-> 0, prev |-> [bc |-> 0, orbit |-> <<>>, tt |-> 0, has |-> FALSE, internal |-> 0, cont |-> 0], pint |-> [bc |-> 0, has |-> FALSE], period |-> 70000]),fault |-> [kind |-> "none", off |-> 0, fam |-> "", pending |-> FALSE]]),
    ([errs |-> <<>>,noff |-> 0,stream |-> <<[words |-> <<>>, xpad |-> 0, rdh |-> <<7, 64, 10, 16, 0, 32, 0, 0, 64, 0, 64, 0, 3, 0, 24, 0, 0, 0, 0, 0, 233, 3, 0, 0, 2, 0, 0, 0, 0, 0, 0, 0, 3, 106, 0, 0, 0, 0, 0, 0, 0, 0, 0, 0, 0, 0, 0, 0, 15, 8, 0, 1, 0, 0, 0, 0, 0, 0, 0, 0, 0, 0, 0, 0>>, link |-> 3]>>,g |-> (3 :> [n |-> 0, hbf |-> 1, page |-> 0, fsm |-> "IHW", rbc |-> 0, last |-> [bc |-> 0, orbit |-> <<>>, tt |-> 0, has |-> FALSE, internal |-> 0, cont |-> 0], open |-> TRUE, sod |-> TRUE, cdwDone |-> FALSE, dataSeen |-> FALSE, done |-> FALSE, cur |-> 1, poff |-> 0, stop |-> 0, padf |-> FALSE] @@ 8 :> [n |-> 0, hbf |-> 1, page |-> 0, fsm |-> "IHW", rbc |-> 0, last |-> [bc |-> 0, orbit |-> <<>>, tt |-> 0, has |-> FALSE, internal |-> 0, cont |-> 0], open |-> FALSE, sod |-> TRUE, cdwDone |-> FALSE, dataSeen |-> FALSE, done |-> FALSE, cur |-> 0, poff |-> 0, stop |-> 0, padf |-> FALSE]),chk |-> (3 :> [fsm |-> "IHW", firstVer |-> 7, tdh |-> [bc |-> 0, orbit |-> <<>>, tt |-> 0, has |-> FALSE, internal |-> 0, cont |-> 0], cdw |-> [has |-> FALSE, user |-> <<>>, idx |-> 0], run |-> [n |-> 1, exp |-> 1, incr |-> 1, hasLast |-> TRUE, lstop |-> 0, lorbit |-> <<233, 3, 0, 0>>, ltrig |-> <<3, 106, 0, 0>>, lfee |-> 4106], lanes |-> 0, prev |-> [bc |-> 0, orbit |-> <<>>, tt |-> 0, has |-> FALSE, internal |-> 0, cont |-> 0], pint |-> [bc |-> 0, has |-> FALSE], period |-> 70000] @@ 8 :> [fsm |-> "IHW", firstVer |-> 256, tdh |-> [bc |-> 0, orbit |-> <<>>, tt |-> 0, has |-> FALSE, internal |-> 0, cont |-> 0], cdw |-> [has |-> FALSE, user |-> <<>>, idx |-> 0], run |-> [n |-> 0, exp |-> 0, incr |-> 1, hasLast |-> FALSE, lstop |-> 0, lorbit |-> <<>>, ltrig |-> <<>>, lfee |-> 0], lanes |-> 0, prev |-> [bc |-> 0, orbit |-> <<>>, tt |-> 0, has |-> FALSE, internal |-> 0, cont |-> 0], pint |-> [bc |-> 0, has |-> FALSE], period |-> 70000]),fault |-> [kind |-> "none", off |-> 0, fam |-> "", pending |-> FALSE]]),
    ([errs |-> <<>>,noff |-> 0,stream |-> <<[words |-> <<>>, xpad |-> 0, rdh |-> <<7, 64, 10, 16, 0, 32, 0, 0, 64, 0, 64, 0, 3, 0, 24, 0, 0, 0, 0, 0, 233, 3, 0, 0, 2, 0, 0, 0, 0, 0, 0, 0, 3, 106, 0, 0, 0, 0, 0, 0, 0, 0, 0, 0, 0, 0, 0, 0, 15, 8, 0, 1, 0, 0, 0, 0, 0, 0, 0, 0, 0, 0, 0, 0>>, link |-> 3], [words |-> <<>>, xpad |-> 0, rdh |-> <<7, 64, 15, 18, 0, 32, 0, 0, 64, 0, 64, 0, 8, 0, 24, 0, 235, 13, 0, 0, 233, 3, 0, 0, 2, 0, 0, 0, 0, 0, 0, 0, 3, 106, 0, 0, 0, 0, 1, 0, 0, 0, 0, 0, 0, 0, 0, 0, 15, 8, 0, 1, 0, 0, 0, 0, 0, 0, 0, 0, 0, 0, 0, 0>>, link |-> 8]>>,g |-> (3 :> [n |-> 0, hbf |-> 1, page |-> 0, fsm |-> "IHW", rbc |-> 0, last |-> [bc |-> 0, orbit |-> <<>>, tt |-> 0, has |-> FALSE, internal |-> 0, cont |-> 0], open |-> TRUE, sod |-> TRUE, cdwDone |-> FALSE, dataSeen |-> FALSE, done |-> FALSE, cur |-> 1, poff |-> 0, stop |-> 0, padf |-> FALSE] @@ 8 :> [n |-> 0, hbf |-> 1, page |-> 0, fsm |-> "IHW", rbc |-> 3563, last |-> [bc |-> 0, orbit |-> <<>>, tt |-> 0, has |-> FALSE, internal |-> 0, cont |-> 0], open |-> TRUE, sod |-> TRUE, cdwDone |-> FALSE, dataSeen |-> FALSE, done |-> FALSE, cur |-> 2, poff |-> 0, stop |-> 0, padf |-> FALSE]),chk |-> (3 :> [fsm |-> "IHW", firstVer |-> 7, tdh |-> [bc |-> 0, orbit |-> <<>>, tt |-> 0, has |-> FALSE, internal |-> 0, cont |-> 0], cdw |-> [has |-> FALSE, user |-> <<>>, idx |-> 0], run |-> [n |-> 1, exp |-> 1, incr |-> 1, hasLast |-> TRUE, lstop |-> 0, lorbit |-> <<233, 3, 0, 0>>, ltrig |-> <<3, 106, 0, 0>>, lfee |-> 4106], lanes |-> 0, prev |-> [bc |-> 0, orbit |-> <<>>, tt |-> 0, has |-> FALSE, internal |-> 0, cont |-> 0], pint |-> [bc |-> 0, has |-> FALSE], period |-> 70000] @@ 8 :> [fsm |-> "IHW", firstVer |-> 7, tdh |-> [bc |-> 0, orbit |-> <<>>, tt |-> 0, has |-> FALSE, internal |-> 0, cont |-> 0], cdw |-> [has |-> FALSE, user |-> <<>>, idx |-> 0], run |-> [n |-> 1, exp |-> 0, incr |-> 1, hasLast |-> TRUE, lstop |-> 1, lorbit |-> <<233, 3, 0, 0>>, ltrig |-> <<3, 106, 0, 0>>, lfee |-> 4623], lanes |-> 0, prev |-> [bc |-> 0, orbit |-> <<>>, tt |-> 0, has |-> FALSE, internal |-> 0, cont |-> 0], pint |-> [bc |-> 0, has |-> FALSE], period |-> 70000]),fault |-> [kind |-> "rdh_stop1_on_ihw_page", off |-> 64, fam |-> "12", pending |-> TRUE]]),
    ([errs |-> <<>>,noff |-> 0,stream |-> <<[words |-> <<<<7, 0, 0, 0, 0, 0, 0, 0, 0, 224>>>>, xpad |-> 0, rdh |-> <<7, 64, 10, 16, 0, 32, 0, 0, 64, 0, 64, 0, 3, 0, 24, 0, 0, 0, 0, 0, 233, 3, 0, 0, 2, 0, 0, 0, 0, 0, 0, 0, 3, 106, 0, 0, 0, 0, 0, 0, 0, 0, 0, 0, 0, 0, 0, 0, 15, 8, 0, 1, 0, 0, 0, 0, 0, 0, 0, 0, 0, 0, 0, 0>>, link |-> 3], [words |-> <<>>, xpad |-> 0, rdh |-> <<7, 64, 15, 18, 0, 32, 0, 0, 64, 0, 64, 0, 8, 0, 24, 0, 235, 13, 0, 0, 233, 3, 0, 0, 2, 0, 0, 0, 0, 0, 0, 0, 3, 106, 0, 0, 0, 0, 1, 0, 0, 0, 0, 0, 0, 0, 0, 0, 15, 8, 0, 1, 0, 0, 0, 0, 0, 0, 0, 0, 0, 0, 0, 0>>, link |-> 8]>>,g |-> (3 :> [n |-> 1, hbf |-> 1, page |-> 0, fsm |-> "TDH", rbc |-> 0, last |-> [bc |-> 0, orbit |-> <<>>, tt |-> 0, has |-> FALSE, internal |-> 0, cont |-> 0], open |-> TRUE, sod |-> TRUE, cdwDone |-> FALSE, dataSeen |-> FALSE, done |-> FALSE, cur |-> 1, poff |-> 0, stop |-> 0, padf |-> FALSE] @@ 8 :> [n |-> 0, hbf |-> 1, page |-> 0, fsm |-> "IHW", rbc |-> 3563, last |-> [bc |-> 0, orbit |-> <<>>, tt |-> 0, has |-> FALSE, internal |-> 0, cont |-> 0], open |-> TRUE, sod |-> TRUE, cdwDone |-> FALSE, dataSeen |-> FALSE, done |-> FALSE, cur |-> 2, poff |-> 0, stop |-> 0, padf |-> FALSE]),chk |-> (3 :> [fsm |-> "TDH", firstVer |-> 7, tdh |-> [bc |-> 0, orbit |-> <<>>, tt |-> 0, has |-> FALSE, internal |-> 0, cont |-> 0], cdw |-> [has |-> FALSE, user |-> <<>>, idx |-> 0], run |-> [n |-> 1, exp |-> 1, incr |-> 1, hasLast |-> TRUE, lstop |-> 0, lorbit |-> <<233, 3, 0, 0>>, ltrig |-> <<3, 106, 0, 0>>, lfee |-> 4106], lanes |-> 7, prev |-> [bc |-> 0, orbit |-> <<>>, tt |-> 0, has |-> FALSE, internal |-> 0, cont |-> 0], pint |-> [bc |-> 0, has |-> FALSE], period |-> 70000] @@ 8 :> [fsm |-> "IHW", firstVer |-> 7, tdh |-> [bc |-> 0, orbit |-> <<>>, tt |-> 0, has |-> FALSE, internal |-> 0, cont |-> 0], cdw |-> [has |-> FALSE, user |-> <<>>, idx |-> 0], run |-> [n |-> 1, exp |-> 0, incr |-> 1, hasLast |-> TRUE, lstop |-> 1, lorbit |-> <<233, 3, 0, 0>>, ltrig |-> <<3, 106, 0, 0>>, lfee |-> 4623], lanes |-> 0, prev |-> [bc |-> 0, orbit |-> <<>>, tt |-> 0, has |-> FALSE, internal |-> 0, cont |-> 0], pint |-> [bc |-> 0, has |-> FALSE], period |-> 70000]),fault |-> [kind |-> "rdh_stop1_on_ihw_page", off |-> 64, fam |-> "12", pending |-> FALSE]])
    >>
----


=============================================================================

---- CONFIG MC_GrammarF_TTrace_1790997316 ----
CONSTANTS
    Links = { 3 , 8 }
    MaxHbf = 2
    MaxPages = 3
    MaxWords = 6
    Df = 2
    Ver = 7
    Running = TRUE
    Its = TRUE
    Faults = TRUE
    Ob = FALSE

INVARIANT
    _inv

CHECK_DEADLOCK
    \* CHECK_DEADLOCK off because of PROPERTY or INVARIANT above.
    FALSE

INIT
    _init

NEXT
    _next

CONSTANT
    _TETrace <- _trace

ALIAS
    _expression
=============================================================================
\* Generated on Sat Oct 03 03:15:18 UTC 2026