SPECIFICATION Spec
CONSTANTS Links = {5, 11}
  MaxHbf = 2
  MaxPages = 3
  MaxWords = 6
  Df = 0
  Ver = 6
  Running = TRUE
  Its = TRUE
  Faults = FALSE
  Ob = TRUE
INVARIANTS NoFalseAlarm Dump

CHECK_DEADLOCK FALSE
