------------------------------ MODULE MC_Scanner ------------------------------
(* Model values for Scanner: the packet kinds and the filters of a configuration. *)
EXTENDS Scanner
CONSTANT Sizes
\* link-filter configurations: two links, one FEE id, every size of the configuration; the input may end anywhere
LinkPkts == [link : {1, 2}, fee : {4101}, size : Sizes]
LinkFilters == {NoFilter} \cup {[k |-> "link", v |-> n] : n \in 1..3}
\* FEE-id / stave configurations: FEE 4101 (L1_5) arrives over both links, link 1 also carries 4357 (L1_5 again, other FEE-id bits), link 2 also 8197 (L2_5)
FeePkts == {p \in [link : {1, 2}, fee : {4101, 4357, 8197}, size : Sizes] : << p.link, p.fee >> \in {<<1, 4101>>, <<1, 4357>>, <<2, 4101>>, <<2, 8197>>}}
\* batch-boundary configurations: one packet kind, as many packets as the reader's batch (100), one more, two batches, ...; complete or ending in the last packet
BatchPkts == {[link |-> 1, fee |-> 4101, size |-> 80]}
BatchFilters == {NoFilter, [k |-> "link", v |-> 1], [k |-> "link", v |-> 2]}
FeeFilters == {[k |-> "fee", v |-> f] : f \in {4101, 4357, 8197, 4102}} \cup {[k |-> "stave", v |-> x] : x \in {69, 133, 197}}
              \cup {[k |-> "link", v |-> n] : n \in 1..2}        \* (link filters on streams where a FEE id is not tied to one link)
===============================================================================
