---- MODULE MC_Arrival ----
EXTENDS Arrival
\* sender "a": 12 messages, two per offset 100,110,...; sender "b": 12 messages, two per offset 105,115,...
MCMsgs == [s \in {"a","b"} |-> [i \in 1..26 |-> [off |-> (IF s = "a" THEN 100 ELSE 105) + 10 * ((i - 1) \div 2), id |-> (IF s = "a" THEN 0 ELSE 100) + i]]]
MCSmall == [s \in {"a","b","c"} |-> [i \in 1..4 |-> [off |-> (CASE s = "a" -> 100 [] s = "b" -> 105 [] s = "c" -> 107) + 10 * ((i - 1) \div 2), id |-> (CASE s = "a" -> 0 [] s = "b" -> 100 [] s = "c" -> 200) + i]]]
====
