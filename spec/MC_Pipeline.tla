---- MODULE MC_Pipeline ----
EXTENDS Pipeline
MCBatches == << <<"l1","l2">>, <<"l2","l1">>, <<"l1">> >>
====
