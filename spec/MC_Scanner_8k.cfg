SPECIFICATION Spec
CONSTANTS MaxLen = 3
  Sizes = {64, 8272}
INVARIANTS ChainExact PrefixKept Emit
CHECK_DEADLOCK FALSE
