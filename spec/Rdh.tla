--------------------------------- MODULE Rdh ---------------------------------
(* RDH (64 bytes) layout, documented sanity rules and running rules.          *)
EXTENDS Bits

Version(r)    == B(r, 0)
HeaderSize(r) == B(r, 1)
FeeId(r)      == U16(r, 2)
Priority(r)   == B(r, 4)
SystemId(r)   == B(r, 5)
Rdh0Res(r)    == U16(r, 6)
OffsetNext(r) == U16(r, 8)
MemSize(r)    == U16(r, 10)
LinkId(r)     == B(r, 12)
PacketCnt(r)  == B(r, 13)
CruId(r)      == U16(r, 14) % 4096
Dw(r)         == B(r, 15) \div 16
Bc(r)         == U16(r, 16) % 4096
Rdh1ResZero(r) == B(r, 17) \div 16 = 0 /\ B(r, 18) = 0 /\ B(r, 19) = 0
OrbitBytes(r) == Bytes(r, 20, 4)
DataFormat(r) == B(r, 24)
TrigBytes(r)  == Bytes(r, 32, 4)
TrigZero(r)   == AllZero(r, 32, 4)
TrigSpareZero(r) == Bit(B(r, 33), 7) = 0 /\ B(r, 34) = 0 /\ B(r, 35) % 8 = 0     \* bits 15..26
Pages(r)      == U16(r, 36)
Stop(r)       == B(r, 38)
Rdh2Res(r)    == B(r, 39)
DetBytes(r)   == Bytes(r, 48, 4)
DetResZero(r) == B(r, 49) \div 16 = 0 /\ B(r, 50) = 0                           \* bits 12..23
Rdh3Res(r)    == U16(r, 54)

Layer(fee) == (fee \div 4096) % 8
Stave(fee) == fee % 64
FeeResZero(fee) == Bit(fee, 15) = 0 /\ Bit(fee, 11) = 0 /\ Bit(fee, 10) = 0 /\ Bit(fee, 7) = 0 /\ Bit(fee, 6) = 0

BC_MAX == 3563     \* 0xdeb

\* Set of violated documented sanity conditions (names are the rule ids of the fault catalogue)
SaneViolations(r, firstVer, its) ==
       (IF Version(r) # firstVer THEN {"header_id"} ELSE {})
  \cup (IF HeaderSize(r) # 64 THEN {"header_size"} ELSE {})
  \cup (IF ~FeeResZero(FeeId(r)) THEN {"fee_reserved"} ELSE {})
  \cup (IF Stave(FeeId(r)) > 47 THEN {"fee_stave"} ELSE {})
  \cup (IF Layer(FeeId(r)) > 6 THEN {"fee_layer"} ELSE {})
  \cup (IF Priority(r) # 0 THEN {"priority"} ELSE {})
  \cup (IF its /\ SystemId(r) # 32 THEN {"system_id"} ELSE {})
  \cup (IF Rdh0Res(r) # 0 THEN {"rdh0_reserved"} ELSE {})
  \cup (IF ~Rdh1ResZero(r) THEN {"rdh1_reserved"} ELSE {})
  \cup (IF Bc(r) > BC_MAX THEN {"bc"} ELSE {})
  \cup (IF Rdh2Res(r) # 0 THEN {"rdh2_reserved"} ELSE {})
  \cup (IF Stop(r) > 1 THEN {"stop_bit"} ELSE {})
  \cup (IF TrigZero(r) \/ ~TrigSpareZero(r) THEN {"trigger"} ELSE {})
  \cup (IF Rdh3Res(r) # 0 THEN {"rdh3_reserved"} ELSE {})
  \cup (IF ~DetResZero(r) THEN {"detector_field"} ELSE {})
  \cup (IF Dw(r) > 1 THEN {"dw"} ELSE {})
  \cup (IF DataFormat(r) > 2 THEN {"data_format"} ELSE {})

\* a printed RDH row (view rdh, `current :` context row of an error message) against the 64 bytes it is about
RowMatches(row, r) == /\ row.ver = Version(r) /\ row.hsize = HeaderSize(r) /\ row.fee = FeeId(r) /\ row.sys = SystemId(r)
                      /\ row.offnext = OffsetNext(r) /\ row.link = LinkId(r) /\ row.pkt = PacketCnt(r) /\ row.bc = Bc(r)
                      /\ row.orbit = OrbitBytes(r) /\ row.df = DataFormat(r) /\ row.trig = TrigBytes(r) /\ row.pages = Pages(r)
                      /\ row.stop = Stop(r) /\ row.det = DetBytes(r)

(* ---- running rules ---- *)
RunInit == [n |-> 0, exp |-> 0, incr |-> 1, hasLast |-> FALSE, lstop |-> 0, lorbit |-> <<>>, ltrig |-> <<>>, lfee |-> 0]

RunViolations(st, r) ==
    LET incr == IF st.n = 1 THEN Pages(r) ELSE st.incr IN
       (IF Stop(r) \in {0, 1} /\ Pages(r) # st.exp THEN {"page"} ELSE {})
  \cup (IF Stop(r) > 1 THEN {"stop"} ELSE {})
  \cup (IF st.hasLast /\ st.lstop = 1 /\ st.lorbit = OrbitBytes(r) THEN {"orbit_same_after_stop"} ELSE {})
  \cup (IF st.hasLast /\ Pages(r) # 0 /\ st.lorbit # OrbitBytes(r) THEN {"orbit_changed"} ELSE {})
  \cup (IF st.hasLast /\ Pages(r) # 0 /\ st.ltrig # TrigBytes(r) THEN {"trigger_changed"} ELSE {})
  \cup (IF st.hasLast /\ Pages(r) # 0 /\ st.lfee # FeeId(r) THEN {"fee_changed"} ELSE {})

RunNext(st, r) ==
    LET incr == IF st.n = 1 THEN Pages(r) ELSE st.incr IN
    [n |-> IF st.n < 2 THEN st.n + 1 ELSE 2,
     exp |-> IF Stop(r) = 0 THEN (st.exp + incr) % 65536 ELSE IF Stop(r) = 1 THEN 0 ELSE st.exp,
     incr |-> incr, hasLast |-> TRUE, lstop |-> Stop(r), lorbit |-> OrbitBytes(r), ltrig |-> TrigBytes(r), lfee |-> FeeId(r)]
=============================================================================
