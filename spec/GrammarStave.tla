----------------------------- MODULE GrammarStave -----------------------------
(* Producer of conforming streams for `check all its-stave`: every data section *)
(* is a complete ALPIDE readout frame (all lanes of the stave half, equal bunch  *)
(* counters, inner-barrel chip id = lane), possibly continued over pages.       *)
EXTENDS ItsStave, Mk, TLC

CONSTANTS Barrel,      \* "IB" | "ML" | "OL"
          MaxHbf, MaxPages, MaxWords, Df, Ver
VARIABLES g, chk, stream, errs, panic
vars == << g, chk, stream, errs, panic >>

L == 3                                                   \* link id
Fee == CASE Barrel = "IB" -> 4096 + 7 [] Barrel = "ML" -> 3 * 4096 + 256 + 9 [] Barrel = "OL" -> 6 * 4096 + 512 + 47
LaneIdSeq == CASE Barrel = "IB" -> << 35, 36, 37 >>                                          \* lanes 3,4,5
               [] Barrel = "ML" -> << 67, 68, 69, 70, 72, 73, 74, 75 >>
               [] Barrel = "OL" -> << 64, 65, 66, 67, 68, 69, 70, 72, 73, 74, 75, 76, 77, 78 >>
LaneMask == LET nums == {IF Barrel = "IB" THEN IbLane(LaneIdSeq[i]) ELSE ObLane(LaneIdSeq[i]) : i \in 1..Len(LaneIdSeq)}
                RECURSIVE Sum(_)
                Sum(S) == IF S = {} THEN 0 ELSE LET x == CHOOSE x \in S : TRUE IN Pow2(x) + Sum(S \ {x})
            IN Sum(nums)
BcDom == {0, 3563}                                 \* includes the accepting boundary 0xdeb
AbcDom == {0, 17, 200}                                    \* ALPIDE bunch counter byte (0 looks like a padding byte)
TtRdh(h) == IF h = 1 THEN 27139 ELSE 24595
OrbitOf(h) == 1000 + h

\* ---- ALPIDE lane content: shapes ----
\* "E": chip empty frame;  "H": header, region, short hit, trailer;  "X": header, region, long hit + short hit whose
\* second byte looks like a chip header, busy on/off, trailer with flags  (spans two data words)
ChipBytes(shape, id, abc) ==
   CASE shape = "E" -> << 224 + id, abc >>
     [] shape = "H" -> << 160 + id, abc, 192 + 5, 64 + 9, 160, 176 >>
     [] shape = "X" -> << 160 + id, abc, 192, 9, 160, 127, 241, 64 + 1, 176 + 1, 240, 200, 64, 0, 176 + 4 >>
Pad9(bs) == bs \o [k \in 1..((9 - (Len(bs) % 9)) % 9) |-> 0]
RECURSIVE FlatS(_)
FlatS(ss) == IF ss = << >> THEN << >> ELSE Head(ss) \o FlatS(Tail(ss))
ChipIds(idx) == IF Barrel = "IB" THEN << IbLane(LaneIdSeq[idx]) >> ELSE << 0, 1, 2, 3, 4, 5, 6 >>
LaneBytes(idx, shape, abc) == Pad9(FlatS([c \in 1..Len(ChipIds(idx)) |-> ChipBytes(IF c = 1 THEN shape ELSE "E", ChipIds(idx)[c], abc)]))
LaneWords(idx, shape, abc) == LET bs == LaneBytes(idx, shape, abc) IN
                              [k \in 1..(Len(bs) \div 9) |-> SubSeq(bs, 9 * (k - 1) + 1, 9 * k) \o << LaneIdSeq[idx] >>]
\* all data words of one frame; lanes in order, or reversed (a second interleaving)
FrameWords(shape, abc, rev) ==
   LET n == Len(LaneIdSeq)
       per == [i \in 1..n |-> LaneWords(IF rev THEN n + 1 - i ELSE i, IF i = 1 THEN shape ELSE "E", abc)]
   IN FlatS(per)

GInit == [hbf |-> 1, page |-> 0, fsm |-> "IHW", n |-> 0, rbc |-> 0, last |-> NoTdh, open |-> FALSE, sod |-> TRUE,
          todo |-> << >>, done |-> FALSE, cur |-> 0]
Init == g = GInit /\ chk = StaveInit /\ stream = << >> /\ errs = << >> /\ panic = FALSE

RdhOf(page, stop, bc) ==
   MkRdh([ver |-> Ver, fee |-> Fee, sys |-> 32, size |-> 64, link |-> L, pkt |-> 0, bc |-> bc, orbit |-> OrbitOf(g.hbf),
          df |-> Df, tt |-> TtRdh(g.hbf), page |-> page, stop |-> stop, det |-> 2048 + 16777216 + 15])     \* detector-field bits 11, 24 and the lane status bits: all legal
CurRdh == stream[g.cur].rdh

OpenPacket(stop, bc) ==
   LET rdh == RdhOf(g.page, stop, bc)
       res == CheckPacketS(chk, 0, rdh, << >>)
   IN /\ stream' = Append(stream, [rdh |-> rdh, words |-> << >>])
      /\ chk' = [res.st EXCEPT !.fr.barrel = IF @ = "NONE" THEN BarrelOf(Fee) ELSE @]
      /\ errs' = errs \o res.errs /\ panic' = (panic \/ res.panic)
      /\ g' = [g EXCEPT !.cur = Len(stream) + 1, !.open = TRUE, !.sod = TRUE, !.n = 0, !.rbc = bc]
OpenPage == /\ ~g.done /\ ~g.open /\ g.page < MaxPages
            /\ \E bc \in BcDom : (g.page > 0 => bc = g.rbc) /\ OpenPacket(0, bc)

AddWord(w, g1) ==
   LET res == CheckWordS(chk, CurRdh, g.sod, w, 0)
   IN /\ g.open
      /\ chk' = res.st /\ errs' = errs \o res.errs /\ panic' = (panic \/ res.panic)
      /\ stream' = [stream EXCEPT ![g.cur].words = Append(@, w)]
      /\ g' = [g1 EXCEPT !.n = g.n + 1, !.fsm = Succ(g.fsm, w), !.sod = res.sod,
                         !.last = IF Id(w) = ID_TDH THEN TdhRec(w) ELSE g1.last]

EmitIhw == g.open /\ g.n = 0 /\ Stop(CurRdh) = 0 /\ g.fsm \in {"IHW", "c_IHW", "DONE", "NODATA"} /\ AddWord(MkIhw(LaneMask), g)

EmitTdh ==
  /\ g.open /\ g.n > 0 /\ (g.n + 2 < MaxWords \/ g.fsm = "c_TDH") /\ g.fsm \in {"TDH", "c_TDH", "DONE", "NODATA"}
  /\ LET h == g.hbf  s == g.fsm  first == (s = "TDH" /\ g.page = 0) IN
     \E nd \in {0, 1}, bc \in BcDom, shape \in {"E", "H", "X"}, abc \in AbcDom, rev \in BOOLEAN :
        /\ (s = "c_TDH") => (nd = 0 /\ bc = g.last.bc /\ shape = "E" /\ abc = 17 /\ ~rev)
        /\ first => (bc = g.rbc /\ nd = 0)
        /\ nd = 1 => (shape = "E" /\ abc = 17 /\ ~rev)
        /\ (s # "c_TDH" /\ g.last.has) => bc >= g.last.bc
        /\ (s # "c_TDH" /\ nd = 0) => (g.n + 2 + Len(FrameWords(shape, abc, rev)) <= MaxWords \/ g.page + 1 < MaxPages)
        /\ LET tt == IF s = "c_TDH" THEN g.last.tt ELSE IF first THEN TtRdh(h) % 4096 ELSE 3
               cont == IF s = "c_TDH" THEN 1 ELSE 0
           IN AddWord(MkTdh(tt, 1, nd, cont, bc, OrbitOf(h)),
                      IF s = "c_TDH" \/ nd = 1 THEN g ELSE [g EXCEPT !.todo = FrameWords(shape, abc, rev)])

EmitData == /\ g.open /\ g.fsm \in {"DATA", "c_DATA"} /\ g.todo # << >> /\ g.n + 1 < MaxWords
            /\ AddWord(Head(g.todo), [g EXCEPT !.todo = Tail(@)])
EmitTdt == /\ g.open /\ g.fsm \in {"DATA", "c_DATA"}
           /\ \/ g.todo = << >> /\ AddWord(MkTdt(1), g)
              \/ g.todo # << >> /\ g.page + 1 < MaxPages /\ g.n + 1 >= MaxWords /\ AddWord(MkTdt(0), g)    \* page full: split
ClosePage == /\ g.open /\ Stop(CurRdh) = 0 /\ g.fsm \in {"DONE", "NODATA", "c_IHW"}
             /\ g' = [g EXCEPT !.open = FALSE, !.page = @ + 1]
             /\ UNCHANGED << chk, stream, errs, panic >>
StopPage == ~g.done /\ ~g.open /\ g.page >= 1 /\ g.fsm \in {"DONE", "NODATA"} /\ OpenPacket(1, g.rbc)
EmitDdw0 == g.open /\ Stop(CurRdh) = 1 /\ g.n = 0 /\ AddWord(MkDdw0, g)
CloseHbf == /\ g.open /\ Stop(CurRdh) = 1 /\ g.n = 1
            /\ g' = [g EXCEPT !.open = FALSE, !.page = 0, !.hbf = @ + 1, !.last = NoTdh, !.done = (g.hbf = MaxHbf)]
            /\ UNCHANGED << chk, stream, errs, panic >>
Next == OpenPage \/ EmitIhw \/ EmitTdh \/ EmitData \/ EmitTdt \/ ClosePage \/ StopPage \/ EmitDdw0 \/ CloseHbf
Spec == Init /\ [][Next]_vars
NoFalseAlarm == errs = << >> /\ ~panic
AbsView == << [g EXCEPT !.cur = 0], chk, errs, panic >>
===============================================================================
