SPECIFICATION Spec
CONSTANTS Lens = {1, 2, 3}
  Sizes = {64, 80}
  Pkts <- FeePkts
  Filters <- FeeFilters
  CutMode = "none"
INVARIANTS ChainExact PrefixKept Emit
CHECK_DEADLOCK FALSE
