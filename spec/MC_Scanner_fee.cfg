SPECIFICATION Spec
CONSTANTS MaxLen = 3
  Sizes = {64, 80}
  Pkts <- FeePkts
  Filters <- FeeFilters
  CutAll = FALSE
INVARIANTS ChainExact PrefixKept Emit
CHECK_DEADLOCK FALSE
