---------------------------- MODULE MC_DataWords -----------------------------
(* C11, data words: all 256 identifiers x lane masks; expected codes from the  *)
(* specification (E70 id, E72 inner lane inactive, E71 outer lane inactive,     *)
(* E73 outer connector input > 6).                                              *)
EXTENDS ItsChecker, TLC, Json
VARIABLE c
Masks == {0, 268435455} \cup {Pow2(k) : k \in 0..27} \cup {268435455 - Pow2(k) : k \in {0, 8, 9, 13, 14, 27}} \cup {7, 56, 448, 16383, 268419072}
Init == c \in [id : 0..255, lanes : Masks]
Next == UNCHANGED c
W == [i \in 1..9 |-> 0] \o << c.id >>
Codes == (IF ~DataIdValid(c.id) THEN << "70" >> ELSE << >>)
         \o (IF IsIbId(c.id) THEN If(~LaneBit(IbLane(c.id), c.lanes), << "72" >>)
             ELSE IF IsObId(c.id) THEN If(~LaneBit(ObLane(c.id), c.lanes), << "71" >>) \o If(ObInput(c.id) > 6, << "73" >>)
             ELSE << >>)
Emit == PrintT("CASE " \o ToJson([w |-> W, lanes |-> c.lanes, codes |-> Codes]))
\* the property's wording: reported  <=>  id outside the valid ranges, or lane not active, or outer-barrel input > 6
Reported == Codes # << >>
Wording == Reported <=> (~DataIdValid(c.id) \/ (IsIbId(c.id) /\ ~LaneBit(IbLane(c.id), c.lanes))
                         \/ (IsObId(c.id) /\ (~LaneBit(ObLane(c.id), c.lanes) \/ ObInput(c.id) > 6)))
==============================================================================
