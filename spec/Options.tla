------------------------------- MODULE Options -------------------------------
(* The command-line contract (C16: "invalid option combinations ... are        *)
(* rejected before any output is written"; valid ones are processed).  One     *)
(* record per invocation shape; Valid is the documented rule set (--help,      *)
(* README): what requires what, what excludes what.  TLC enumerates the whole  *)
(* product and emits every shape with its verdict; the driver replays each     *)
(* against the real binary on a small conforming file.                         *)
EXTENDS Naturals, Sequences, FiniteSets, TLC, Json

Cmds == {"none", "check sanity", "check sanity its", "check sanity its-stave", "check all", "check all its", "check all its-stave",
         "view rdh", "view its-readout-frames", "view its-readout-frames-data"}
Shape == [cmd : Cmds,
          f : BOOLEAN, F : BOOLEAN, s : BOOLEAN,        \* --filter-link, --filter-fee, --filter-its-stave
          p : BOOLEAN,                                  \* --its-trigger-period
          o : BOOLEAN,                                  \* --output <file>
          E : {"absent", "0", "7"},                     \* --any-errors-exit-code
          stats : {"none", "both", "output-only", "format-only"},      \* --output-stats <file> / --stats-format json
          i : {"absent", "ok", "missing", "noext", "badext"},          \* --input-stats-file: a matching file / no such file / no extension / .txt
          g : BOOLEAN]                                  \* --generate-checks-toml: a valid invocation writes the template custom_checks.toml into the working directory and ends (status 0) without processing; an invalid one writes nothing
NFilters(x) == (IF x.f THEN 1 ELSE 0) + (IF x.F THEN 1 ELSE 0) + (IF x.s THEN 1 ELSE 0)
Valid(x) == /\ NFilters(x) <= 1                                   \* the filters exclude one another
            /\ x.o => NFilters(x) = 1                             \* raw output requires a filter
            /\ x.p => (NFilters(x) >= 1 /\ x.cmd = "check all its-stave")      \* the trigger period belongs to `check all its-stave` and requires a filter
                                                                  \* (the option table names the stave filter; the parser is satisfied by any member of the
                                                                  \*  filter group and the documentation does not say otherwise: modelled as the tool behaves)
            /\ x.cmd # "check sanity its-stave"                   \* stave checks are running checks
            /\ x.E # "0"                                          \* the any-errors status cannot be 0
            /\ x.stats \in {"none", "both"}                       \* the statistics output and its format require each other
            /\ x.i \in {"absent", "ok"}                           \* the reference statistics file exists and is .json / .toml
VARIABLE x
Init == x \in Shape
Next == UNCHANGED x
Emit == PrintT("OPT " \o ToJson([x |-> x, valid |-> Valid(x)]))
\* design checks: every rule is needed (dropping it changes the verdict of some shape) - the rule set has no dead rule
RuleUsed == \A r \in 1..7 : \E y \in Shape : ~Valid(y) /\
              LET others == << NFilters(y) <= 1, y.o => NFilters(y) = 1, y.p => (NFilters(y) >= 1 /\ y.cmd = "check all its-stave"), y.cmd # "check sanity its-stave",
                               y.E # "0", y.stats \in {"none", "both"}, y.i \in {"absent", "ok"} >>
              IN \A k \in 1..7 : k # r => others[k]
ASSUME RuleUsed
===============================================================================
