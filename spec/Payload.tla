------------------------------- MODULE Payload -------------------------------
(* Cutting a payload (sequence of bytes) into 80-bit words.                   *)
EXTENDS Bits

RECURSIVE TrailFFi(_, _)
TrailFFi(p, n) == IF n = 0 \/ p[n] # 255 THEN 0 ELSE 1 + TrailFFi(p, n - 1)
TrailFF(p) == TrailFFi(p, Len(p))

\* the first slot's bytes 10..15 are all zero  => 16-byte slots (data format 0)
LooksV0(p) == Len(p) >= 16 /\ \A k \in 10..15 : B(p, k) = 0

Chunks(p, slot) == [k \in 1..(Len(p) \div slot) |-> SubSeq(p, (k - 1) * slot + 1, (k - 1) * slot + 10)]

PadErr(p) == TrailFF(p) > 15
\* 16-byte slots (first 10 bytes are the word), or consecutive 10-byte words with the trailing 0xFF padding cut off
CutAs(slot16, p) == IF slot16 THEN Chunks(p, 16)
                    ELSE IF TrailFF(p) > 9 THEN Chunks(SubSeq(p, 1, Len(p) - TrailFF(p)), 10)
                    ELSE Chunks(p, 10)
\* the slot size is the one the header's data format prescribes (0: 16-byte slots, 2: 10-byte words); only for a header
\* whose data format is invalid (reported by the RDH sanity check) is it guessed from the content (named deviation: fallback)
Cut(df, p) == CASE df = 0 -> CutAs(TRUE, p) [] df = 2 -> CutAs(FALSE, p) [] OTHER -> CutAs(LooksV0(p), p)

\* offset of word i (0-based) of a packet at pktOff whose HEADER says data format df
Slot(df) == IF df = 0 THEN 16 ELSE 10
WordOffset(pktOff, df, i) == pktOff + 64 + i * Slot(df)

\* the protocol side: how a word list is laid out
RECURSIVE Flat(_)
Flat(ws) == IF ws = << >> THEN << >> ELSE Head(ws) \o Flat(Tail(ws))
Encode(df, ws, pad) == (IF df = 0 THEN Flat([i \in 1..Len(ws) |-> ws[i] \o <<0, 0, 0, 0, 0, 0>>]) ELSE Flat(ws)) \o [i \in 1..pad |-> 255]
=============================================================================
