SPECIFICATION TSpec
CONSTANTS Cap = 100
  Defect = "none"
CONSTRAINT Reached
POSTCONDITION Accepted
CHECK_DEADLOCK FALSE
