------------------------------ MODULE Trace_Order ------------------------------
(* C05 (and the display order of C16): the error messages of a run, in the order *)
(* they are shown and stored, are the specified errors of all packets in file    *)
(* order, stably sorted by offset - whatever the thread schedule was.            *)
(* Errors with equal offsets always stem from one packet (one validator), so the *)
(* result does not depend on the arrival order at the collector (Arrival.tla).   *)
(* events: Cfg [stave, running, its, period], Pkt [off, link, rdh, payload], End [shown : Seq([off, code])] *)
EXTENDS ItsStave, TLC, Json, IOUtils
Rec == ndJsonDeserialize(IOEnv.TRACE)
VARIABLES l, st, sst, cfg, exp
tvars == << l, st, sst, cfg, exp >>
Init == l = 1 /\ st = [k \in 0..255 |-> LinkInit] /\ sst = [k \in {} |-> StaveInit] /\ cfg = [stave |-> FALSE, running |-> FALSE, its |-> FALSE] /\ exp = << >>
IsEvent(k) == l <= Len(Rec) /\ Rec[l].e = k /\ l' = l + 1
GetS(k) == IF k \in DOMAIN sst THEN sst[k] ELSE StaveInit
PutS(k, v) == [x \in DOMAIN sst \cup {k} |-> IF x = k THEN v ELSE sst[x]]
TraceCfg == /\ IsEvent("Cfg") /\ cfg' = [stave |-> Rec[l].stave, running |-> Rec[l].running, its |-> Rec[l].its]
            /\ st' = [k \in 0..255 |-> LinkInit] /\ sst' = [k \in {} |-> StaveInit] /\ exp' = << >>
TracePkt == /\ IsEvent("Pkt") /\ UNCHANGED cfg
            /\ LET ev == Rec[l] IN
               IF cfg.stave
                 THEN LET key == U16(ev.rdh, 2)  res == CheckPacketS(GetS(key), ev.off, ev.rdh, ev.payload)
                      IN sst' = PutS(key, res.st) /\ exp' = exp \o res.errs /\ UNCHANGED st
                 ELSE LET res == CheckPacket(st[ev.link], ev.off, ev.rdh, ev.payload, [running |-> cfg.running, its |-> cfg.its])
                      IN st' = [st EXCEPT ![ev.link] = res.st] /\ exp' = exp \o res.errs /\ UNCHANGED sst
\* stable sort by offset
RECURSIVE StableSort(_)
StableSort(q) == IF q = << >> THEN << >>
                 ELSE LET m == CHOOSE x \in {q[i].off : i \in 1..Len(q)} : \A i \in 1..Len(q) : x <= q[i].off
                      IN SelectSeq(q, LAMBDA e : e.off = m) \o StableSort(SelectSeq(q, LAMBDA e : e.off # m))
TraceEnd == /\ IsEvent("End") /\ UNCHANGED << st, sst, cfg, exp >>
            /\ LET want == StableSort(exp) IN
               IF want = Rec[l].shown THEN TRUE
               ELSE PrintT("REJECT " \o ToJson([l |-> l, tag |-> "order", expected |-> want, observed |-> Rec[l].shown]))
Next == TraceCfg \/ TracePkt \/ TraceEnd
Spec == Init /\ [][Next]_tvars
Accepted == IF TLCGet("stats").diameter - 1 = Len(Rec) THEN TRUE
            ELSE Print(<<"TRACE NOT ACCEPTED: matched", TLCGet("stats").diameter - 1, "of", Len(Rec)>>, FALSE)
================================================================================
