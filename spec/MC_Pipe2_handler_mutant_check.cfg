SPECIFICATION MCSpec
CONSTANTS ReaderCap = 1
  ValCap0 = 1
  Mode = "check"
  MainKeepsReceiver = FALSE
  Links = {1, 2}
  MaxBatches = 3
  Full = 2
  MaxStops = 1
  MaxSignals = 2
  Handler = "flag"
INVARIANTS OrderlyOnOneSignal TypeOK AllJoined CollectorLast WholeOut NoDeadlock
PROPERTY Terminates
CHECK_DEADLOCK FALSE
