INIT Init
NEXT Next
CONSTANTS MaxLen = 3
  Sizes = {64, 80}
  Cap = 2
  Defect = "offset-before-skip"
INVARIANTS Refines TrackedIsTrue OffsetsTrue BatchesFull
CHECK_DEADLOCK FALSE
