INIT Init
NEXT Next
CONSTANTS MaxLen = 3
  Sizes = {64, 80}
  Pkts <- LinkPkts
  Filters <- LinkFilters
  CutAll = TRUE
  Cap = 2
  Defect = "offset-before-skip"
INVARIANTS Refines TrackedIsTrue OffsetsTrue BatchesFull
CHECK_DEADLOCK FALSE
