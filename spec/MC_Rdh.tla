------------------------------- MODULE MC_Rdh -------------------------------
EXTENDS Rdh, TLC, Json, FiniteSets
VARIABLES mode, c, hist

\* a valid reference RDH (v7, ITS, L1_7, link 3, page 0, format 2) with non-trivial values in every checked field
Ref == << 7, 64, 7, 16, 0, 32, 0, 0,      80, 0, 80, 0, 3, 9, 24, 0,
          33, 2, 0, 0, 232, 3, 0, 0,      2, 0, 0, 0, 0, 0, 0, 0,
          3, 106, 0, 0, 0, 0, 0, 0,       0, 0, 0, 0, 0, 0, 0, 0,
          1, 8, 0, 1, 0, 0, 0, 0,         0, 0, 0, 0, 0, 0, 0, 0 >>
FlipBit(r, n) == [i \in 1..64 |-> IF i = (n \div 8) + 1
                                    THEN (IF Bit(r[i], n % 8) = 1 THEN r[i] - Pow2(n % 8) ELSE r[i] + Pow2(n % 8))
                                    ELSE r[i]]
SetByte(r, i, v) == [r EXCEPT ![i + 1] = v]
SetU16(r, i, v) == [r EXCEPT ![i + 1] = v % 256, ![i + 2] = v \div 256]

\* ---- abstract running alphabet ----
Letter == [page : 0..2, stop : 0..1, orbit : {1, 2}, trig : {3, 5}, fee : {7, 8}]
MkRdh(l) == LET a == SetU16(Ref, 36, l.page) b == SetByte(a, 38, l.stop) cc == SetByte(b, 20, l.orbit)
                d == SetByte(cc, 32, l.trig) e == SetByte(d, 2, l.fee) IN e

Boundary == { SetU16(Ref, 16, 3563), SetU16(Ref, 16, 3564), SetU16(Ref, 16, 4095),
              SetU16(Ref, 2, 4096 + 47), SetU16(Ref, 2, 4096 + 48), SetU16(Ref, 2, 6 * 4096 + 7), SetU16(Ref, 2, 7 * 4096 + 7),
              SetByte(Ref, 38, 0), SetByte(Ref, 38, 1), SetByte(Ref, 38, 2), SetByte(Ref, 38, 255),
              SetByte(Ref, 24, 0), SetByte(Ref, 24, 1), SetByte(Ref, 24, 2), SetByte(Ref, 24, 3),
              SetByte(Ref, 15, 0), SetByte(Ref, 15, 16), SetByte(Ref, 15, 32),
              SetByte(Ref, 5, 31), SetByte(Ref, 5, 33), SetByte(Ref, 0, 6), SetByte(Ref, 1, 63), SetByte(Ref, 1, 65) }

\* ---- sanity over sequences: the reference header version is the one of the FIRST header of the link, whatever else is wrong with it ----
SLetter == [ver : {6, 7}, fault : {"none", "sysid", "priority", "fee_reserved", "rdh0_reserved", "header_size"}]
MkSane(l) == LET a == SetByte(Ref, 0, l.ver) IN
             CASE l.fault = "none" -> a
               [] l.fault = "sysid" -> SetByte(a, 5, 33)
               [] l.fault = "priority" -> SetByte(a, 4, 1)
               [] l.fault = "fee_reserved" -> SetByte(a, 2, 7 + 64)
               [] l.fault = "rdh0_reserved" -> SetByte(a, 6, 1)
               [] l.fault = "header_size" -> SetByte(a, 1, 65)

Init == /\ mode \in {"flip", "bound", "run", "sane3"}
        /\ hist = << >>
        /\ c \in CASE mode = "flip"  -> [its : BOOLEAN, n : 0..511]
                  [] mode = "bound" -> [its : BOOLEAN, r : Boundary]
                  [] mode = "run"   -> {[its |-> FALSE]}
                  [] mode = "sane3" -> [its : BOOLEAN, s : [1..3 -> SLetter]]
Next == /\ mode = "run" /\ Len(hist) < 3
        /\ \E l \in Letter : (Len(hist) = 0 => l.page = 0) /\ (Len(hist) = 1 => l.page = 1) /\ hist' = Append(hist, l)
        /\ UNCHANGED << mode, c >>

RECURSIVE RunAll(_, _)
RunAll(st, rs) == IF rs = << >> THEN << >>
                  ELSE << RunViolations(st, Head(rs)) = {} >> \o RunAll(RunNext(st, Head(rs)), Tail(rs))
SaneSeq(rs, its) == [i \in 1..Len(rs) |-> SaneViolations(rs[i], Version(rs[1]), its) = {}]

CaseSeq == CASE mode = "flip" -> << Ref, FlipBit(Ref, c.n) >>
             [] mode = "bound" -> << Ref, c.r >>
             [] mode = "run" -> [i \in 1..Len(hist) |-> MkRdh(hist[i])]
             [] mode = "sane3" -> [i \in 1..3 |-> MkSane(c.s[i])]
Emit == (mode # "run" \/ Len(hist) = 3) =>
           PrintT("CASE " \o ToJson([mode |-> mode, its |-> c.its, seq |-> CaseSeq,
                                    sane |-> SaneSeq(CaseSeq, c.its), run |-> RunAll(RunInit, CaseSeq)]))
=============================================================================
