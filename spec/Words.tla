-------------------------------- MODULE Words -------------------------------
(* Word-level rules of the ITS payload protocol (doc/checks_list.md,          *)
(* "ITS Payload sanity checks") on 80-bit words given as 10 bytes.            *)
EXTENDS Bits

ID_IHW == 224   \* 0xE0
ID_TDH == 232   \* 0xE8
ID_TDT == 240   \* 0xF0
ID_DDW0 == 228  \* 0xE4
ID_CDW == 248   \* 0xF8

Id(w) == B(w, 9)

(* ---- IHW: id 0xE0, bits 27:0 active lanes, bits 71:28 reserved ---- *)
IhwActiveLanes(w) == B(w,0) + 256 * B(w,1) + 65536 * B(w,2) + 16777216 * (B(w,3) % 16)
IhwReservedZero(w) == B(w,3) \div 16 = 0 /\ AllZero(w, 4, 5)
IhwSane(w) == Id(w) = ID_IHW /\ IhwReservedZero(w)

(* ---- TDH: 11:0 trigger type, 12 internal, 13 no_data, 14 continuation, 15 res,
        27:16 bc, 31:28 res, 63:32 orbit, 71:64 res, 79:72 id ---- *)
TdhTriggerType(w) == B(w,0) + 256 * (B(w,1) % 16)
TdhInternal(w) == Bit(B(w,1), 4)
TdhNoData(w) == Bit(B(w,1), 5)
TdhCont(w) == Bit(B(w,1), 6)
TdhBc(w) == B(w,2) + 256 * (B(w,3) % 16)
TdhOrbitBytes(w) == Bytes(w, 4, 4)
TdhReservedZero(w) == Bit(B(w,1), 7) = 0 /\ B(w,3) \div 16 = 0 /\ B(w,8) = 0
TdhSane(w) == /\ Id(w) = ID_TDH
              /\ TdhReservedZero(w)
              /\ (TdhTriggerType(w) # 0 \/ TdhInternal(w) = 1)

(* ---- TDT: 55:0 lane status, 60:56 res, 61..63 timeouts, 64 packet_done,
        65 transmission_timeout, 66 res, 67 lane_starts_violation, 71:68 res ---- *)
TdtPacketDone(w) == Bit(B(w,8), 0)
TdtReservedZero(w) == B(w,7) % 32 = 0 /\ Bit(B(w,8), 2) = 0 /\ B(w,8) \div 16 = 0
TdtSane(w) == Id(w) = ID_TDT /\ TdtReservedZero(w)

(* ---- DDW0: 55:0 lane status, 63:56 res, 64 res, 65 transmission timeout, 66 res,
        67 lane starts violation, 71:68 index ---- *)
Ddw0Index(w) == B(w,8) \div 16
Ddw0ReservedZero(w) == B(w,7) = 0 /\ Bit(B(w,8), 0) = 0 /\ Bit(B(w,8), 2) = 0
Ddw0Sane(w) == Id(w) = ID_DDW0 /\ Ddw0ReservedZero(w) /\ Ddw0Index(w) = 0

(* ---- data words ---- *)
IlIds == 32..40                                        \* 0x20..0x28
MlIds == (67..70) \cup (72..75) \cup (83..86) \cup (88..91)
OlIds == (64..70) \cup (72..78) \cup (80..86) \cup (88..94)
DataIdValid(id) == id \in IlIds \cup MlIds \cup OlIds
IsIbId(id) == id \div 32 = 1                           \* 3 msb = 001
IsObId(id) == id \div 32 = 2                           \* 3 msb = 010
IbLane(id) == id % 32
ObLane(id) == IF id <= 70 THEN id % 64
              ELSE IF id <= 78 THEN 7 + (id % 72)
              ELSE IF id <= 86 THEN 14 + (id % 80)
              ELSE 21 + (id % 88)
ObInput(id) == id % 8
LaneActive(lane, lanes) == lane < 28 /\ Bit(lanes, lane) = 1   \* lanes is the 28-bit IHW field
=============================================================================
