---------------------------------- MODULE Mk ----------------------------------
(* Constructors: abstract field values -> bytes (the inverse of the decoders). *)
EXTENDS Bits
Le16(v) == << v % 256, (v \div 256) % 256 >>
Le32(v) == << v % 256, (v \div 256) % 256, (v \div 65536) % 256, (v \div 16777216) % 256 >>
Zeros(n) == [i \in 1..n |-> 0]

\* RDH from a record of fields (all small naturals)
MkRdh(f) == << f.ver, 64 >> \o Le16(f.fee) \o << 0, f.sys, 0, 0 >>
            \o Le16(f.size) \o Le16(f.size) \o << f.link, f.pkt >> \o Le16(24)
            \o Le16(f.bc) \o << 0, 0 >> \o Le32(f.orbit)
            \o << f.df >> \o Zeros(7)
            \o Le32(f.tt) \o Le16(f.page) \o << f.stop, 0 >>
            \o Zeros(8)
            \o Le32(f.det) \o Zeros(4)
            \o Zeros(8)

MkIhw(lanes) == Le32(lanes) \o Zeros(5) \o << 224 >>
MkTdh(tt, internal, nodata, cont, bc, orbit) ==
    Le16(tt + 4096 * internal + 8192 * nodata + 16384 * cont) \o Le16(bc) \o Le32(orbit) \o << 0, 232 >>
MkTdt(done) == Zeros(8) \o << done, 240 >>
MkDdw0 == Zeros(9) \o << 228 >>
MkCdw(user, idx) == << user, 0, 0, 0, 0, 0 >> \o Le16(idx) \o << 0, 248 >>
MkData(id, first) == << first >> \o Zeros(8) \o << id >>
===============================================================================
