SPECIFICATION Spec
CONSTANTS Links = {3}
  MaxHbf = 1
  MaxPages = 2
  MaxWords = 5
  Df = 2
  Ver = 7
  Running = TRUE
  Its = TRUE
  Faults = TRUE
  Ob = FALSE
INVARIANTS NoFalseAlarm FaultDetected
VIEW AbsView
CHECK_DEADLOCK FALSE
