---------------------------- MODULE MC_Pipe2Modes ----------------------------
(* The table ModeOf over the option combinations that decide nothing about the *)
(* threads but have been seen to: emitted for the driver, which records one    *)
(* execution of the hooked binary per row and validates it against Pipe2 in    *)
(* the mode the table names (Trace_Pipe2_<mode>).                              *)
EXTENDS Pipe2, Json
VARIABLE o
Rows == {r \in [cmd : {"check", "view", "none"}, filter : {"none", "link", "fee", "stave"}, out : {"none", "file", "stdout"}, stats : {"none", "output", "reference"}] :
            r.out # "none" => r.filter # "none"}                \* (an output destination requires a filter: Options!Valid)
MInit == o \in Rows /\ Init /\ asend = 0
MNext == UNCHANGED << o, allvars >>
Emit == PrintT("PMODE " \o ToJson([o |-> o, mode |-> ModeOf(o)]))
==============================================================================
