INIT Init
NEXT Next
CONSTANT MaxLen = 5
INVARIANTS Total Emit
VIEW View
CHECK_DEADLOCK FALSE
