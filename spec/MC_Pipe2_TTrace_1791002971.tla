---- MODULE MC_Pipe2_TTrace_1791002971 ----
EXTENDS Sequences, TLCExt, Toolbox, Naturals, TLC, MC_Pipe2

_expression ==
    LET MC_Pipe2_TEExpression == INSTANCE MC_Pipe2_TEExpression
    IN MC_Pipe2_TEExpression!expression
----

_trace ==
    LET MC_Pipe2_TETrace == INSTANCE MC_Pipe2_TETrace
    IN MC_Pipe2_TETrace!trace
----

_inv ==
    ~(
        TLCGet("level") = Len(_TETrace)
        /\
        wout = (0)
        /\
        qRA = (<<2>>)
        /\
        mpc = ("forward")
        /\
        rpc = ("sending")
        /\
        asend = (1)
        /\
        qV = (<<>>)
        /\
        rcvW = (FALSE)
        /\
        rcvMain = (TRUE)
        /\
        vpc = (<<>>)
        /\
        rcvA = (FALSE)
        /\
        wpc = ("done")
        /\
        stop = (FALSE)
        /\
        nstop = (0)
        /\
        arem = (0)
        /\
        vorder = (<<>>)
        /\
        apc = ("done")
        /\
        rlen = (1)
        /\
        cpc = ("loop")
        /\
        vSend = (<<>>)
        /\
        budget = (1)
    )
----

_init ==
    /\ asend = _TETrace[1].asend
    /\ qRA = _TETrace[1].qRA
    /\ rpc = _TETrace[1].rpc
    /\ qV = _TETrace[1].qV
    /\ vpc = _TETrace[1].vpc
    /\ stop = _TETrace[1].stop
    /\ rcvA = _TETrace[1].rcvA
    /\ nstop = _TETrace[1].nstop
    /\ rcvW = _TETrace[1].rcvW
    /\ arem = _TETrace[1].arem
    /\ wout = _TETrace[1].wout
    /\ vorder = _TETrace[1].vorder
    /\ apc = _TETrace[1].apc
    /\ cpc = _TETrace[1].cpc
    /\ rlen = _TETrace[1].rlen
    /\ rcvMain = _TETrace[1].rcvMain
    /\ mpc = _TETrace[1].mpc
    /\ vSend = _TETrace[1].vSend
    /\ wpc = _TETrace[1].wpc
    /\ budget = _TETrace[1].budget
----

_next ==
    /\ \E i,j \in DOMAIN _TETrace:
        /\ \/ /\ j = i + 1
              /\ i = TLCGet("level")
        /\ asend  = _TETrace[i].asend
        /\ asend' = _TETrace[j].asend
        /\ qRA  = _TETrace[i].qRA
        /\ qRA' = _TETrace[j].qRA
        /\ rpc  = _TETrace[i].rpc
        /\ rpc' = _TETrace[j].rpc
        /\ qV  = _TETrace[i].qV
        /\ qV' = _TETrace[j].qV
        /\ vpc  = _TETrace[i].vpc
        /\ vpc' = _TETrace[j].vpc
        /\ stop  = _TETrace[i].stop
        /\ stop' = _TETrace[j].stop
        /\ rcvA  = _TETrace[i].rcvA
        /\ rcvA' = _TETrace[j].rcvA
        /\ nstop  = _TETrace[i].nstop
        /\ nstop' = _TETrace[j].nstop
        /\ rcvW  = _TETrace[i].rcvW
        /\ rcvW' = _TETrace[j].rcvW
        /\ arem  = _TETrace[i].arem
        /\ arem' = _TETrace[j].arem
        /\ wout  = _TETrace[i].wout
        /\ wout' = _TETrace[j].wout
        /\ vorder  = _TETrace[i].vorder
        /\ vorder' = _TETrace[j].vorder
        /\ apc  = _TETrace[i].apc
        /\ apc' = _TETrace[j].apc
        /\ cpc  = _TETrace[i].cpc
        /\ cpc' = _TETrace[j].cpc
        /\ rlen  = _TETrace[i].rlen
        /\ rlen' = _TETrace[j].rlen
        /\ rcvMain  = _TETrace[i].rcvMain
        /\ rcvMain' = _TETrace[j].rcvMain
        /\ mpc  = _TETrace[i].mpc
        /\ mpc' = _TETrace[j].mpc
        /\ vSend  = _TETrace[i].vSend
        /\ vSend' = _TETrace[j].vSend
        /\ wpc  = _TETrace[i].wpc
        /\ wpc' = _TETrace[j].wpc
        /\ budget  = _TETrace[i].budget
        /\ budget' = _TETrace[j].budget

\* Uncomment the ASSUME below to write the states of the error trace
\* to the given file in Json format. Note that you can pass any tuple
\* to `JsonSerialize`. For example, a sub-sequence of _TETrace.
    \* ASSUME
    \*     LET J == INSTANCE Json
    \*         IN J!JsonSerialize("MC_Pipe2_TTrace_1791002971.json", _TETrace)

=============================================================================

 Note that you can extract this module `MC_Pipe2_TEExpression`
  to a dedicated file to reuse `expression` (the module in the 
  dedicated `MC_Pipe2_TEExpression.tla` file takes precedence 
  over the module `MC_Pipe2_TEExpression` below).

---- MODULE MC_Pipe2_TEExpression ----
EXTENDS Sequences, TLCExt, Toolbox, Naturals, TLC, MC_Pipe2

expression == 
    [
        \* To hide variables of the `MC_Pipe2` spec from the error trace,
        \* remove the variables below.  The trace will be written in the order
        \* of the fields of this record.
        asend |-> asend
        ,qRA |-> qRA
        ,rpc |-> rpc
        ,qV |-> qV
        ,vpc |-> vpc
        ,stop |-> stop
        ,rcvA |-> rcvA
        ,nstop |-> nstop
        ,rcvW |-> rcvW
        ,arem |-> arem
        ,wout |-> wout
        ,vorder |-> vorder
        ,apc |-> apc
        ,cpc |-> cpc
        ,rlen |-> rlen
        ,rcvMain |-> rcvMain
        ,mpc |-> mpc
        ,vSend |-> vSend
        ,wpc |-> wpc
        ,budget |-> budget
        
        \* Put additional constant-, state-, and action-level expressions here:
        \* ,_stateNumber |-> _TEPosition
        \* ,_asendUnchanged |-> asend = asend'
        
        \* Format the `asend` variable as Json value.
        \* ,_asendJson |->
        \*     LET J == INSTANCE Json
        \*     IN J!ToJson(asend)
        
        \* Lastly, you may build expressions over arbitrary sets of states by
        \* leveraging the _TETrace operator.  For example, this is how to
        \* count the number of times a spec variable changed up to the current
        \* state in the trace.
        \* ,_asendModCount |->
        \*     LET F[s \in DOMAIN _TETrace] ==
        \*         IF s = 1 THEN 0
        \*         ELSE IF _TETrace[s].asend # _TETrace[s-1].asend
        \*             THEN 1 + F[s-1] ELSE F[s-1]
        \*     IN F[_TEPosition - 1]
    ]

=============================================================================



Parsing and semantic processing can take forever if the trace below is long.
 In this case, it is advised to uncomment the module below to deserialize the
 trace from a generated binary file.

\*
\*---- MODULE MC_Pipe2_TETrace ----
\*EXTENDS IOUtils, TLC, MC_Pipe2
\*
\*trace == IODeserialize("MC_Pipe2_TTrace_1791002971.bin", TRUE)
\*
\*=============================================================================
\*

---- MODULE MC_Pipe2_TETrace ----
EXTENDS TLC, MC_Pipe2

trace == 
    <<
    ([wout |-> 0,qRA |-> <<>>,mpc |-> "drop",rpc |-> "check",asend |-> 1,qV |-> <<>>,rcvW |-> FALSE,rcvMain |-> TRUE,vpc |-> <<>>,rcvA |-> FALSE,wpc |-> "done",stop |-> FALSE,nstop |-> 0,arem |-> 0,vorder |-> <<>>,apc |-> "done",rlen |-> 0,cpc |-> "loop",vSend |-> <<>>,budget |-> 3]),
    ([wout |-> 0,qRA |-> <<>>,mpc |-> "drop",rpc |-> "sending",asend |-> 1,qV |-> <<>>,rcvW |-> FALSE,rcvMain |-> TRUE,vpc |-> <<>>,rcvA |-> FALSE,wpc |-> "done",stop |-> FALSE,nstop |-> 0,arem |-> 0,vorder |-> <<>>,apc |-> "done",rlen |-> 2,cpc |-> "loop",vSend |-> <<>>,budget |-> 2]),
    ([wout |-> 0,qRA |-> <<2>>,mpc |-> "drop",rpc |-> "sent",asend |-> 1,qV |-> <<>>,rcvW |-> FALSE,rcvMain |-> TRUE,vpc |-> <<>>,rcvA |-> FALSE,wpc |-> "done",stop |-> FALSE,nstop |-> 0,arem |-> 0,vorder |-> <<>>,apc |-> "done",rlen |-> 2,cpc |-> "loop",vSend |-> <<>>,budget |-> 2]),
    ([wout |-> 0,qRA |-> <<2>>,mpc |-> "forward",rpc |-> "sent",asend |-> 1,qV |-> <<>>,rcvW |-> FALSE,rcvMain |-> TRUE,vpc |-> <<>>,rcvA |-> FALSE,wpc |-> "done",stop |-> FALSE,nstop |-> 0,arem |-> 0,vorder |-> <<>>,apc |-> "done",rlen |-> 2,cpc |-> "loop",vSend |-> <<>>,budget |-> 2]),
    ([wout |-> 0,qRA |-> <<2>>,mpc |-> "forward",rpc |-> "check",asend |-> 1,qV |-> <<>>,rcvW |-> FALSE,rcvMain |-> TRUE,vpc |-> <<>>,rcvA |-> FALSE,wpc |-> "done",stop |-> FALSE,nstop |-> 0,arem |-> 0,vorder |-> <<>>,apc |-> "done",rlen |-> 2,cpc |-> "loop",vSend |-> <<>>,budget |-> 2]),
    ([wout |-> 0,qRA |-> <<2>>,mpc |-> "forward",rpc |-> "sending",asend |-> 1,qV |-> <<>>,rcvW |-> FALSE,rcvMain |-> TRUE,vpc |-> <<>>,rcvA |-> FALSE,wpc |-> "done",stop |-> FALSE,nstop |-> 0,arem |-> 0,vorder |-> <<>>,apc |-> "done",rlen |-> 1,cpc |-> "loop",vSend |-> <<>>,budget |-> 1])
    >>
----


=============================================================================

---- CONFIG MC_Pipe2_TTrace_1791002971 ----
CONSTANTS
    ReaderCap = 1
    ValCap0 = 1
    Mode = "none"
    MainKeepsReceiver = TRUE
    Links = { 1 , 2 }
    MaxBatches = 3
    Full = 2
    MaxStops = 2

INVARIANT
    _inv

CHECK_DEADLOCK
    \* CHECK_DEADLOCK off because of PROPERTY or INVARIANT above.
    FALSE

INIT
    _init

NEXT
    _next

CONSTANT
    _TETrace <- _trace

ALIAS
    _expression
=============================================================================
\* Generated on Sat Oct 03 04:49:33 UTC 2026