SPECIFICATION Spec
CONSTANTS Links = {3}
  MaxHbf = 2
  MaxPages = 2
  MaxWords = 6
  Df = 2
  Ver = 7
  Running = FALSE
  Its = TRUE
  Faults = FALSE
  Ob = FALSE
INVARIANTS NoFalseAlarm
VIEW AbsView
CHECK_DEADLOCK FALSE
