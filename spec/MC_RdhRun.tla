------------------------------ MODULE MC_RdhRun ------------------------------
(* C10, running rules: the complete product (running state x next RDH) for     *)
(* histories of bounded length.  The running state of spec/Rdh.tla after a     *)
(* history is `st`; every letter (page, stop bit incl. the illegal value 2,    *)
(* orbit, trigger, FEE id) is tried in every reachable state; the history that *)
(* leads there is carried outside the VIEW, so each (state, letter) pair is    *)
(* emitted once, with the verdicts of the whole witness history.               *)
EXTENDS Rdh, TLC, Json, FiniteSets
CONSTANT MaxLen
VARIABLES st, hist, verd, before, letter

Ref == << 7, 64, 7, 16, 0, 32, 0, 0,      80, 0, 80, 0, 3, 9, 24, 0,
          33, 2, 0, 0, 232, 3, 0, 0,      2, 0, 0, 0, 0, 0, 0, 0,
          3, 106, 0, 0, 0, 0, 0, 0,       0, 0, 0, 0, 0, 0, 0, 0,
          1, 8, 0, 1, 0, 0, 0, 0,         0, 0, 0, 0, 0, 0, 0, 0 >>
\* (the alternatives of orbit, trigger type and FEE id differ in the SAME bit positions: changes of two fields that would cancel in a folded comparison
\*  are part of the product)
Letter == [page : 0..3, stop : 0..2, orbit : {1, 2}, trig : {5, 6}, fee : {5, 6}]
\* the bytes a letter changes in Ref: << byte index, value >>
Patch(l) == << <<36, l.page>>, <<38, l.stop>>, <<20, l.orbit>>, <<32, l.trig>>, <<2, l.fee>> >>
RECURSIVE Apply(_, _)
Apply(r, ps) == IF ps = << >> THEN r ELSE Apply([r EXCEPT ![Head(ps)[1] + 1] = Head(ps)[2]], Tail(ps))
MkRdh(l) == Apply(Ref, Patch(l))

NoLetter == [page |-> 9, stop |-> 9, orbit |-> 9, trig |-> 9, fee |-> 9]
Init == st = RunInit /\ hist = << >> /\ verd = << >> /\ before = RunInit /\ letter = NoLetter
Next == /\ Len(hist) < MaxLen
        /\ \E l \in Letter :
              /\ (Len(hist) = 0 => l.page = 0 /\ l.stop = 0)        \* the statement's scope: sequences that begin at an HBF start; the SECOND header may carry any page
                                                                    \* counter (it is checked against 1, and it is what the checker learns the increment from)
              /\ (Len(hist) = 1 => l.page \in {1, 3})                    \* (as it should be, and not)
              /\ LET r == MkRdh(l) IN
                 /\ hist' = Append(hist, Patch(l))
                 /\ verd' = Append(verd, RunViolations(st, r) = {})
                 /\ st' = RunNext(st, r)
                 /\ before' = st /\ letter' = l
View == << before, letter, Len(hist) = MaxLen >>
Emit == hist # << >> => PrintT("RUN " \o ToJson([ref |-> Ref, patches |-> hist, run |-> verd]))
\* the documented automaton is deterministic and total: every letter has a verdict in every state
Total == \A l \in Letter : RunViolations(st, MkRdh(l)) \in SUBSET {"page", "stop", "orbit_same_after_stop", "orbit_changed", "trigger_changed", "fee_changed"}
=============================================================================
