SPECIFICATION Spec
CONSTANTS Links = {3, 8}
  MaxHbf = 2
  MaxPages = 3
  MaxWords = 6
  Df = 2
  Ver = 7
  Running = TRUE
  Its = TRUE
  Faults = FALSE
  Ob = FALSE
INVARIANTS NoFalseAlarm Dump

CHECK_DEADLOCK FALSE
