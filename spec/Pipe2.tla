-------------------------------- MODULE Pipe2 --------------------------------
(* The thread / channel pipeline of fastPASTA at the granularity of the hook   *)
(* events: reader R, analysis+dispatcher A, one validator V per dispatch id,    *)
(* writer W, main M (process(): hands over / drops its receiver, forwards the   *)
(* scanner's statistics, joins), collector C; the stop flag.                    *)
(*                                                                              *)
(* Mode: "check" (A dispatches to validators), "view" (A prints), "write" (W    *)
(* consumes the batches, no A), "none" (nobody consumes).                       *)
(*                                                                              *)
(* Contents are abstracted to counts.  Every blocking operation is split into   *)
(* its parts so that recorded executions can be matched step by step:           *)
(*   send   = start (logged before the call) ; enqueue or failure (silent) ;    *)
(*            done / fail (logged after)                                        *)
(*   recv   = dequeue (silent: frees a slot a blocked sender may use at once) ; *)
(*            the event logged after it                                         *)
(* Model checked (MC_Pipe2: deadlock freedom, termination, every worker joined, *)
(* the writer's output is whole batches) and used for trace validation of the   *)
(* hooked binary (Trace_Pipe2, with the real capacities).                       *)
EXTENDS Naturals, Sequences, FiniteSets, TLC

CONSTANTS ReaderCap, ValCap0,        \* real: 100 and 128 (first validator ValCap0, k-th (k >= 2): ValCap0 * 2^min(k,7); validator_dispatcher.rs:84-113)
          Mode,
          MainKeepsReceiver          \* FALSE = as coded. TRUE = the defect "process() keeps its receiver handle until it returns" (lib.rs:196-220 warns
                                     \* against it): kept as a switch so that the model checker SHOWS the deadlock it causes (MC_Pipe2_mutant)
VARIABLES rpc, rlen,                 \* reader: "check" | "sending" | "sent" | "done"; length of the batch being sent
          qRA,                       \* queue of batch lengths (reader -> analysis / writer)
          rcvMain, rcvA, rcvW,       \* live receiver handles of that channel
          apc, arem,                 \* analysis: "check" | "recv" | "taken" | "batch" | "sending" | "join" | "joining" | "exited" | "done"; packets left in batch
          vorder,                    \* dispatch ids in spawn order (fixes the capacity of each validator channel)
          qV, vSend, vpc,            \* per id: queue length, dispatcher's sender alive, validator "loop" | "taken" | "busy" | "done"
          wpc, wout,                 \* writer: "recv" | "taken" | "got" | "done"; number of whole batches pushed to the output buffer
          mpc,                       \* main: "drop" | "forward" | "joinA" | "done"
          cpc, stop,
          asend                      \* the id the dispatcher is sending to
vars == << rpc, rlen, qRA, rcvMain, rcvA, rcvW, apc, arem, vorder, qV, vSend, vpc, wpc, wout, mpc, cpc, stop >>
allvars == << vars, asend >>

HasA == Mode \in {"check", "view"}
HasW == Mode = "write"
Spawned == {vorder[i] : i \in 1..Len(vorder)}
CapOf(l) == LET k == CHOOSE i \in 1..Len(vorder) : vorder[i] = l IN IF k = 1 THEN ValCap0 ELSE ValCap0 * (2 ^ (IF k < 7 THEN k ELSE 7))
Fn(S, v) == [x \in S |-> v]
Ext(f, k, v) == [x \in DOMAIN f \cup {k} |-> IF x = k THEN v ELSE f[x]]
AnyReceiver == rcvMain \/ rcvA \/ rcvW

Init == /\ rpc = "check" /\ rlen = 0 /\ qRA = << >> /\ rcvMain = TRUE /\ rcvA = HasA /\ rcvW = HasW
        /\ apc = (IF HasA THEN "check" ELSE "done") /\ arem = 0 /\ vorder = << >> /\ qV = Fn({}, 0) /\ vSend = Fn({}, FALSE) /\ vpc = Fn({}, "loop")
        /\ wpc = (IF HasW THEN "recv" ELSE "done") /\ wout = 0
        /\ mpc = "drop" /\ cpc = "loop" /\ stop = FALSE

U(v) == UNCHANGED v
\* ---------- reader ----------
RCheckStop == rpc = "check" /\ stop /\ rpc' = "done" /\ U(<< rlen, qRA, rcvMain, rcvA, rcvW, apc, arem, vorder, qV, vSend, vpc, wpc, wout, mpc, cpc, stop >>)
RSendStart(n) == rpc = "check" /\ rpc' = "sending" /\ rlen' = n          \* (the stop check that preceded it is not observable)
                 /\ U(<< qRA, rcvMain, rcvA, rcvW, apc, arem, vorder, qV, vSend, vpc, wpc, wout, mpc, cpc, stop >>)
REnqueue == rpc = "sending" /\ AnyReceiver /\ Len(qRA) < ReaderCap
            /\ qRA' = Append(qRA, rlen) /\ rpc' = "sent"
            /\ U(<< rlen, rcvMain, rcvA, rcvW, apc, arem, vorder, qV, vSend, vpc, wpc, wout, mpc, cpc, stop >>)
RSendDone(last) == rpc = "sent" /\ rpc' = (IF last THEN "done" ELSE "check")
                   /\ U(<< rlen, qRA, rcvMain, rcvA, rcvW, apc, arem, vorder, qV, vSend, vpc, wpc, wout, mpc, cpc, stop >>)
\* a blocked (or starting) send fails exactly when every receiver handle is gone
RSendFail == rpc = "sending" /\ ~AnyReceiver /\ rpc' = "done"
             /\ U(<< rlen, qRA, rcvMain, rcvA, rcvW, apc, arem, vorder, qV, vSend, vpc, wpc, wout, mpc, cpc, stop >>)
REofExit == rpc = "check" /\ rpc' = "done" /\ U(<< rlen, qRA, rcvMain, rcvA, rcvW, apc, arem, vorder, qV, vSend, vpc, wpc, wout, mpc, cpc, stop >>)
\* ---------- analysis ----------
ACheck == apc = "check" /\ apc' = (IF stop THEN "join" ELSE "recv")
          /\ U(<< rpc, rlen, qRA, rcvMain, rcvA, rcvW, arem, vorder, qV, vSend, vpc, wpc, wout, mpc, cpc, stop >>)
ATake == apc = "recv" /\ qRA # << >> /\ qRA' = Tail(qRA) /\ arem' = Head(qRA) /\ apc' = "taken"
         /\ U(<< rpc, rlen, rcvMain, rcvA, rcvW, vorder, qV, vSend, vpc, wpc, wout, mpc, cpc, stop >>)
ARecv(n) == apc = "taken" /\ arem = n /\ apc' = "batch"
            /\ U(<< rpc, rlen, qRA, rcvMain, rcvA, rcvW, arem, vorder, qV, vSend, vpc, wpc, wout, mpc, cpc, stop >>)
ARecvDisc == apc = "recv" /\ qRA = << >> /\ rpc = "done" /\ apc' = "join"
             /\ U(<< rpc, rlen, qRA, rcvMain, rcvA, rcvW, arem, vorder, qV, vSend, vpc, wpc, wout, mpc, cpc, stop >>)
\* view mode: the batch is printed (a write error becomes a fatal message to the collector: the collector raises the stop flag)
AView == Mode = "view" /\ apc = "batch" /\ apc' = "check" /\ arem' = 0
         /\ U(<< rpc, rlen, qRA, rcvMain, rcvA, rcvW, vorder, qV, vSend, vpc, wpc, wout, mpc, cpc, stop >>)
\* check mode: packet by packet to the validator of its id
ASpawn(l) == Mode = "check" /\ apc = "batch" /\ arem > 0 /\ l \notin Spawned
             /\ vorder' = Append(vorder, l) /\ qV' = Ext(qV, l, 0) /\ vSend' = Ext(vSend, l, TRUE) /\ vpc' = Ext(vpc, l, "loop")
             /\ U(<< rpc, rlen, qRA, rcvMain, rcvA, rcvW, apc, arem, wpc, wout, mpc, cpc, stop >>)
ADispatchStart(l) == Mode = "check" /\ apc = "batch" /\ arem > 0 /\ l \in Spawned /\ apc' = "sending"
                     /\ U(<< rpc, rlen, qRA, rcvMain, rcvA, rcvW, arem, vorder, qV, vSend, vpc, wpc, wout, mpc, cpc, stop >>)
ADispatchStartL(l) == ADispatchStart(l) /\ asend' = l
AEnqueue == apc = "sending" /\ qV[asend] < CapOf(asend)
            /\ qV' = [qV EXCEPT ![asend] = @ + 1] /\ arem' = arem - 1
            /\ apc' = (IF arem - 1 = 0 THEN "check" ELSE "batch")
            /\ U(<< rpc, rlen, qRA, rcvMain, rcvA, rcvW, vorder, vSend, vpc, wpc, wout, mpc, cpc, stop, asend >>)
AJoinStart == apc = "join" /\ vSend' = [l \in DOMAIN vSend |-> FALSE] /\ apc' = "joining"
              /\ U(<< rpc, rlen, qRA, rcvMain, rcvA, rcvW, arem, vorder, qV, vpc, wpc, wout, mpc, cpc, stop >>)
\* the thread's last logged event comes BEFORE its closure returns and its receiver handle is dropped: until then the reader can still enqueue
AExit == apc = "joining" /\ (\A l \in Spawned : vpc[l] = "done") /\ apc' = "exited"
         /\ U(<< rpc, rlen, qRA, rcvMain, rcvA, rcvW, arem, vorder, qV, vSend, vpc, wpc, wout, mpc, cpc, stop >>)
ADrop == apc = "exited" /\ apc' = "done" /\ rcvA' = FALSE
         /\ U(<< rpc, rlen, qRA, rcvMain, rcvW, arem, vorder, qV, vSend, vpc, wpc, wout, mpc, cpc, stop >>)
\* ---------- validators ----------
VTake(l) == l \in Spawned /\ vpc[l] \in {"loop", "busy"} /\ qV[l] > 0 /\ qV' = [qV EXCEPT ![l] = @ - 1] /\ vpc' = [vpc EXCEPT ![l] = "taken"]
            /\ U(<< rpc, rlen, qRA, rcvMain, rcvA, rcvW, apc, arem, vorder, vSend, wpc, wout, mpc, cpc, stop >>)
VRecv(l) == l \in Spawned /\ vpc[l] = "taken" /\ vpc' = [vpc EXCEPT ![l] = "busy"]
            /\ U(<< rpc, rlen, qRA, rcvMain, rcvA, rcvW, apc, arem, vorder, qV, vSend, wpc, wout, mpc, cpc, stop >>)
VExit(l) == l \in Spawned /\ vpc[l] \in {"loop", "busy"} /\ qV[l] = 0 /\ ~vSend[l] /\ vpc' = [vpc EXCEPT ![l] = "done"]
            /\ U(<< rpc, rlen, qRA, rcvMain, rcvA, rcvW, apc, arem, vorder, qV, vSend, wpc, wout, mpc, cpc, stop >>)
\* ---------- writer (write/lib.rs:21-40): receive; if the stop flag is up leave (the batch just received is dropped whole); else push it ----------
WTake == wpc = "recv" /\ qRA # << >> /\ qRA' = Tail(qRA) /\ wpc' = "taken"
         /\ U(<< rpc, rlen, rcvMain, rcvA, rcvW, apc, arem, vorder, qV, vSend, vpc, wout, mpc, cpc, stop >>)
WRecv == wpc = "taken" /\ wpc' = "got"
         /\ U(<< rpc, rlen, qRA, rcvMain, rcvA, rcvW, apc, arem, vorder, qV, vSend, vpc, wout, mpc, cpc, stop >>)
WStopBreak == wpc = "got" /\ stop /\ wpc' = "exited"
              /\ U(<< rpc, rlen, qRA, rcvMain, rcvA, rcvW, apc, arem, vorder, qV, vSend, vpc, wout, mpc, cpc, stop >>)
WPushed == wpc = "got" /\ wpc' = "recv" /\ wout' = wout + 1       \* (the stop check that preceded the push is not observable: see Trace_Pipe2)
           /\ U(<< rpc, rlen, qRA, rcvMain, rcvA, rcvW, apc, arem, vorder, qV, vSend, vpc, mpc, cpc, stop >>)
WRecvDisc == wpc = "recv" /\ qRA = << >> /\ rpc = "done" /\ wpc' = "exited"
             /\ U(<< rpc, rlen, qRA, rcvMain, rcvA, rcvW, apc, arem, vorder, qV, vSend, vpc, wout, mpc, cpc, stop >>)
\* (the writer's buffer is flushed and its receiver dropped when its closure returns, after its last logged event)
WDrop == wpc = "exited" /\ wpc' = "done" /\ rcvW' = FALSE
         /\ U(<< rpc, rlen, qRA, rcvMain, rcvA, apc, arem, vorder, qV, vSend, vpc, wout, mpc, cpc, stop >>)
\* ---------- main ----------
MDrop == mpc = "drop" /\ rcvMain' = (IF MainKeepsReceiver THEN rcvMain ELSE FALSE) /\ mpc' = "forward"
         /\ U(<< rpc, rlen, qRA, rcvA, rcvW, apc, arem, vorder, qV, vSend, vpc, wpc, wout, cpc, stop >>)
MForwardEnd == mpc = "forward" /\ rpc = "done" /\ mpc' = "joinA"
               /\ U(<< rpc, rlen, qRA, rcvMain, rcvA, rcvW, apc, arem, vorder, qV, vSend, vpc, wpc, wout, cpc, stop >>)
MJoined == mpc = "joinA" /\ apc = "done" /\ wpc = "done" /\ mpc' = "done" /\ rcvMain' = FALSE
           /\ U(<< rpc, rlen, qRA, rcvA, rcvW, apc, arem, vorder, qV, vSend, vpc, wpc, wout, cpc, stop >>)
\* ---------- collector ----------
AnySender == mpc # "done" \/ apc # "done" \/ \E l \in Spawned : vpc[l] # "done"
CRecv(setStop) == cpc = "loop" /\ stop' = (stop \/ setStop)
                  /\ U(<< rpc, rlen, qRA, rcvMain, rcvA, rcvW, apc, arem, vorder, qV, vSend, vpc, wpc, wout, mpc, cpc >>)
CClosed == cpc = "loop" /\ ~AnySender /\ cpc' = "done"
           /\ U(<< rpc, rlen, qRA, rcvMain, rcvA, rcvW, apc, arem, vorder, qV, vSend, vpc, wpc, wout, mpc, stop >>)
\* the stop flag raised from outside the pipeline: a signal at any instant (the error cap and fatal errors raise it through CRecv)
ExtStop == ~stop /\ stop' = TRUE /\ U(<< rpc, rlen, qRA, rcvMain, rcvA, rcvW, apc, arem, vorder, qV, vSend, vpc, wpc, wout, mpc, cpc >>)

\* Which consumers of the reader's queue exist is decided by the command alone (lib.rs process()): a check or a view has the analysis thread and no writer,
\* whatever filter, output destination or statistics option comes with it (an output destination next to a check or view is documented as ignored);
\* without a command a filter makes it a filtered-writing run (to the file given, else to stdout), and without either nobody consumes.
ModeOf(o) == IF o.cmd = "check" THEN "check" ELSE IF o.cmd = "view" THEN "view" ELSE IF o.filter # "none" THEN "write" ELSE "none"

AllDone == rpc = "done" /\ apc = "done" /\ wpc = "done" /\ mpc = "done" /\ cpc = "done" /\ \A l \in Spawned : vpc[l] = "done"
===============================================================================
