-------------------------------- MODULE Pipe2 --------------------------------
(* Check-mode pipeline at the granularity of the hook events.  Contents are    *)
(* abstracted to counts; every blocking operation is split into its check and  *)
(* its completion so that recorded executions can be matched step by step.     *)
EXTENDS Naturals, Sequences, FiniteSets, TLC

CONSTANTS ReaderCap, ValCap0         \* real: 100 and 128 (first validator ValCap0, k-th (k >= 2): ValCap0 * 2^min(k,7); validator_dispatcher.rs:84-113)
VARIABLES rpc, rlen,                 \* reader: "check" | "sending" | "done"; length of the batch being sent
          qRA,                       \* queue of batch lengths
          rcvMain, rcvA,             \* live receiver handles of the reader channel
          apc, arem,                 \* analysis: "check" | "recv" | "batch" | "join" | "done"; packets left in batch
          vorder,                    \* links in spawn order (fixes the capacity of each validator channel)
          qV, vSend, vpc,            \* per link: queue length, dispatcher's sender alive, validator "loop" | "busy" | "done"
          mpc,                       \* main: "drop" | "forward" | "joinR" | "joinA" | "ret" | "done"
          cpc, stop
vars == << rpc, rlen, qRA, rcvMain, rcvA, apc, arem, vorder, qV, vSend, vpc, mpc, cpc, stop >>

Spawned == {vorder[i] : i \in 1..Len(vorder)}
CapOf(l) == LET k == CHOOSE i \in 1..Len(vorder) : vorder[i] = l IN IF k = 1 THEN ValCap0 ELSE ValCap0 * (2 ^ (IF k < 7 THEN k ELSE 7))
Fn(S, v) == [x \in S |-> v]
Ext(f, k, v) == [x \in DOMAIN f \cup {k} |-> IF x = k THEN v ELSE f[x]]

Init == /\ rpc = "check" /\ rlen = 0 /\ qRA = << >> /\ rcvMain = TRUE /\ rcvA = TRUE
        /\ apc = "check" /\ arem = 0 /\ vorder = << >> /\ qV = Fn({}, 0) /\ vSend = Fn({}, FALSE) /\ vpc = Fn({}, "loop")
        /\ mpc = "drop" /\ cpc = "loop" /\ stop = FALSE

U(v) == UNCHANGED v
\* ---------- reader ----------
RCheckStop == rpc = "check" /\ stop /\ rpc' = "done" /\ U(<< rlen, qRA, rcvMain, rcvA, apc, arem, vorder, qV, vSend, vpc, mpc, cpc, stop >>)
RSendStart(n) == rpc = "check" /\ rpc' = "sending" /\ rlen' = n          \* (the stop check that preceded it is not observable)
                 /\ U(<< qRA, rcvMain, rcvA, apc, arem, vorder, qV, vSend, vpc, mpc, cpc, stop >>)
REnqueue == rpc = "sending" /\ (rcvMain \/ rcvA) /\ Len(qRA) < ReaderCap
            /\ qRA' = Append(qRA, rlen) /\ rpc' = "sent"
            /\ U(<< rlen, rcvMain, rcvA, apc, arem, vorder, qV, vSend, vpc, mpc, cpc, stop >>)
RSendDone(last) == rpc = "sent" /\ rpc' = (IF last THEN "done" ELSE "check")
                   /\ U(<< rlen, qRA, rcvMain, rcvA, apc, arem, vorder, qV, vSend, vpc, mpc, cpc, stop >>)
RSendFail == rpc = "sending" /\ ~rcvMain /\ ~rcvA /\ rpc' = "done"
             /\ U(<< rlen, qRA, rcvMain, rcvA, apc, arem, vorder, qV, vSend, vpc, mpc, cpc, stop >>)
REofExit == rpc = "check" /\ rpc' = "done" /\ U(<< rlen, qRA, rcvMain, rcvA, apc, arem, vorder, qV, vSend, vpc, mpc, cpc, stop >>)
\* ---------- analysis ----------
ACheck == apc = "check" /\ apc' = (IF stop THEN "join" ELSE "recv")
          /\ U(<< rpc, rlen, qRA, rcvMain, rcvA, arem, vorder, qV, vSend, vpc, mpc, cpc, stop >>)
\* a receive is two steps: the dequeue (silent: it frees a slot that a blocked sender may use before the receiver has logged anything)
\* and the event logged after it
ATake == apc = "recv" /\ qRA # << >> /\ qRA' = Tail(qRA) /\ arem' = Head(qRA) /\ apc' = "taken"
         /\ U(<< rpc, rlen, rcvMain, rcvA, vorder, qV, vSend, vpc, mpc, cpc, stop >>)
ARecv(n) == apc = "taken" /\ arem = n /\ apc' = "batch"
            /\ U(<< rpc, rlen, qRA, rcvMain, rcvA, arem, vorder, qV, vSend, vpc, mpc, cpc, stop >>)
ARecvDisc == apc = "recv" /\ qRA = << >> /\ rpc = "done" /\ apc' = "join"
             /\ U(<< rpc, rlen, qRA, rcvMain, rcvA, arem, vorder, qV, vSend, vpc, mpc, cpc, stop >>)
ASpawn(l) == apc = "batch" /\ arem > 0 /\ l \notin Spawned
             /\ vorder' = Append(vorder, l) /\ qV' = Ext(qV, l, 0) /\ vSend' = Ext(vSend, l, TRUE) /\ vpc' = Ext(vpc, l, "loop")
             /\ U(<< rpc, rlen, qRA, rcvMain, rcvA, apc, arem, mpc, cpc, stop >>)
ADispatchStart(l) == apc = "batch" /\ arem > 0 /\ l \in Spawned /\ apc' = "sending"
                     /\ U(<< rpc, rlen, qRA, rcvMain, rcvA, arem, vorder, qV, vSend, vpc, mpc, cpc, stop >>)
\* the enqueue into the validator channel (silent); which link is being sent to is carried in `arem`'s companion below
VARIABLE asend
allvars == << vars, asend >>
ADispatchStartL(l) == ADispatchStart(l) /\ asend' = l
AEnqueue == apc = "sending" /\ qV[asend] < CapOf(asend)
            /\ qV' = [qV EXCEPT ![asend] = @ + 1] /\ arem' = arem - 1
            /\ apc' = (IF arem - 1 = 0 THEN "check" ELSE "batch")
            /\ U(<< rpc, rlen, qRA, rcvMain, rcvA, vorder, vSend, vpc, mpc, cpc, stop, asend >>)
AJoinStart == apc = "join" /\ vSend' = [l \in DOMAIN vSend |-> FALSE] /\ apc' = "joining"
              /\ U(<< rpc, rlen, qRA, rcvMain, rcvA, arem, vorder, qV, vpc, mpc, cpc, stop >>)
AExit == apc = "joining" /\ (\A l \in Spawned : vpc[l] = "done") /\ apc' = "done" /\ rcvA' = FALSE
         /\ U(<< rpc, rlen, qRA, rcvMain, arem, vorder, qV, vSend, vpc, mpc, cpc, stop >>)
\* ---------- validators ----------
VTake(l) == l \in Spawned /\ vpc[l] \in {"loop", "busy"} /\ qV[l] > 0 /\ qV' = [qV EXCEPT ![l] = @ - 1] /\ vpc' = [vpc EXCEPT ![l] = "taken"]
            /\ U(<< rpc, rlen, qRA, rcvMain, rcvA, apc, arem, vorder, vSend, mpc, cpc, stop >>)
VRecv(l) == l \in Spawned /\ vpc[l] = "taken" /\ vpc' = [vpc EXCEPT ![l] = "busy"]
            /\ U(<< rpc, rlen, qRA, rcvMain, rcvA, apc, arem, vorder, qV, vSend, mpc, cpc, stop >>)
VExit(l) == l \in Spawned /\ vpc[l] \in {"loop", "busy"} /\ qV[l] = 0 /\ ~vSend[l] /\ vpc' = [vpc EXCEPT ![l] = "done"]
            /\ U(<< rpc, rlen, qRA, rcvMain, rcvA, apc, arem, vorder, qV, vSend, mpc, cpc, stop >>)
\* ---------- main ----------
MDrop == mpc = "drop" /\ rcvMain' = FALSE /\ mpc' = "forward"
         /\ U(<< rpc, rlen, qRA, rcvA, apc, arem, vorder, qV, vSend, vpc, cpc, stop >>)
MForwardEnd == mpc = "forward" /\ rpc = "done" /\ mpc' = "joinA"
               /\ U(<< rpc, rlen, qRA, rcvMain, rcvA, apc, arem, vorder, qV, vSend, vpc, cpc, stop >>)
MJoined == mpc = "joinA" /\ apc = "done" /\ mpc' = "done"
           /\ U(<< rpc, rlen, qRA, rcvMain, rcvA, apc, arem, vorder, qV, vSend, vpc, cpc, stop >>)
\* ---------- collector ----------
AnySender == mpc # "done" \/ apc # "done" \/ \E l \in Spawned : vpc[l] # "done"
CRecv(setStop) == cpc = "loop" /\ stop' = (stop \/ setStop)
                  /\ U(<< rpc, rlen, qRA, rcvMain, rcvA, apc, arem, vorder, qV, vSend, vpc, mpc, cpc >>)
CClosed == cpc = "loop" /\ ~AnySender /\ cpc' = "done"
           /\ U(<< rpc, rlen, qRA, rcvMain, rcvA, apc, arem, vorder, qV, vSend, vpc, mpc, stop >>)
ExtStop == ~stop /\ stop' = TRUE /\ U(<< rpc, rlen, qRA, rcvMain, rcvA, apc, arem, vorder, qV, vSend, vpc, mpc, cpc >>)
===============================================================================
