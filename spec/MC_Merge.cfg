INIT Init
NEXT Next
CONSTANTS Senders = {"a","b"}
  Msgs <- MergeMsgs
INVARIANT EmitM
CHECK_DEADLOCK FALSE
