----------------------------- MODULE MC_ItsFsm ------------------------------
EXTENDS ItsFsm, TLC, Json, Integers
VARIABLES s, impl, last     \* s = diagram state, impl = implementation variant id, last = the transition just taken (for dumping)

Z == [i \in 1..8 |-> 0]
Mk(b0, b1, b8, id) == <<b0, b1>> \o [i \in 1..6 |-> 0] \o <<b8, id>>
\* one representative word per class
Alphabet == [ IHW   |-> Mk(7, 0, 0, ID_IHW),
              TDH00 |-> Mk(3, 16, 0, ID_TDH),        \* internal, data, no cont
              TDH01 |-> Mk(3, 80, 0, ID_TDH),        \* cont
              TDH10 |-> Mk(3, 48, 0, ID_TDH),        \* no_data
              TDH11 |-> Mk(3, 112, 0, ID_TDH),
              TDT0  |-> Mk(0, 0, 0, ID_TDT),
              TDT1  |-> Mk(0, 0, 1, ID_TDT),
              DDW0  |-> Mk(0, 0, 0, ID_DDW0),
              CDW   |-> Mk(0, 0, 0, ID_CDW),
              DWI   |-> Mk(0, 0, 0, 34),
              DWO   |-> Mk(0, 0, 0, 72),
              UNK0  |-> Mk(0, 0, 0, 1),              \* unknown id, no_data bit clear
              UNK1  |-> Mk(0, 32, 1, 255) ]          \* unknown id, bit 13 and bit 64 set
Classes == DOMAIN Alphabet

Init == s = InitState /\ impl = ImplInit /\ last = [from |-> "-", fromId |-> -1, cls |-> "-", w |-> <<>>, legal |-> TRUE, class |-> "-", to |-> InitState, toId |-> ImplInit, fam |-> "-"]
Next == \E c \in Classes :
          LET w == Alphabet[c] IN
          /\ s' = Step(s, w)
          /\ impl' = ImplStep(impl, w)
          /\ last' = [from |-> s, fromId |-> impl, toId |-> ImplStep(impl, w), cls |-> c, w |-> w, legal |-> Legal(s, w), class |-> Class(s, w), to |-> Step(s, w),
                      fam |-> IF Legal(s, w) THEN "-" ELSE IllegalFamily(s)]
TypeOK == s \in States /\ impl \in ImplStates
\* the coded machine refines the diagram: the variant reached always stands for the diagram state reached
Refines == Abs(impl) = s
Dump == PrintT("EDGE " \o ToJson(last))
=============================================================================
