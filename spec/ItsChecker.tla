----------------------------- MODULE ItsChecker ------------------------------
(* Per-link checker: RDH sanity + running + ITS payload checks (targets ITS). *)
(* CheckPacket returns the new state and the errors as a sequence of          *)
(* [off, code].  Error codes are strings without the leading E.               *)
EXTENDS ItsFsm, Rdh, Payload

NoTdh == [has |-> FALSE, bc |-> 0, orbit |-> << >>, tt |-> 0, cont |-> 0, internal |-> 0]
NoPeriod == 70000
LinkInit == [firstVer |-> 256, run |-> RunInit, fsm |-> InitState, lanes |-> 0,
             tdh |-> NoTdh, prev |-> NoTdh, cdw |-> [has |-> FALSE, user |-> << >>, idx |-> 0],
             pint |-> [has |-> FALSE, bc |-> 0], period |-> NoPeriod]
\* bunch-crossing distance as the code computes it (u16 arithmetic, orbit length 3564)
BcDist(cur, prv) == IF cur < prv THEN (((3564 + 65536 - prv) % 65536) + cur) % 65536 ELSE cur - prv

TdhRec(w) == [has |-> TRUE, bc |-> TdhBc(w), orbit |-> TdhOrbitBytes(w), tt |-> TdhTriggerType(w),
             cont |-> TdhCont(w), internal |-> TdhInternal(w)]
E(off, code) == << [off |-> off, code |-> code] >>
If(c, s) == IF c THEN s ELSE << >>

RdhPht(r) == Bit(B(r, 32), 4) = 1
RdhTt12(r) == B(r, 32) + 256 * (B(r, 33) % 16)
LaneBit(lane, lanes) == LET k == lane % 32 IN k < 28 /\ Bit(lanes, k) = 1      \* release semantics of the shift; the IHW field has 28 bits

CdwUser(w) == Bytes(w, 0, 6)
CdwIdx(w) == B(w, 6) + 256 * B(w, 7) + 65536 * B(w, 8)

\* one word.  st: link state; r: RDH bytes of the packet; running: BOOLEAN; sod: start-of-data flag
\* returns [st, errs, sod]
CheckWord(st, r, running, sod, w, off) ==
  LET s == st.fsm
      legal == Legal(s, w)
      cls == Class(s, w)
      nxt == Step(s, w)
      asTdh(kind) ==      \* kind in {"first","next","cont","unknown"}
         LET t == TdhRec(w)
             sane == If(~TdhSane(w), E(off, "40"))
             runErrs ==
               IF ~running THEN << >>
               ELSE CASE kind = "first" ->
                          If(t.cont # 0, E(off, "42"))
                          \o If(t.orbit # OrbitBytes(r), E(off, "444"))
                          \o (IF Pages(r) = 0 /\ (t.internal = 1 \/ RdhPht(r))
                                THEN If(t.bc # Bc(r), E(off, "445")) \o If(RdhTt12(r) # t.tt, E(off, "44"))
                                ELSE << >>)
                    [] kind = "next" -> If(st.tdh.has /\ st.tdh.bc > t.bc, E(off, "440"))
                    [] kind = "cont" ->
                          If(t.cont # 1, E(off, "41"))
                          \o (IF st.tdh.has THEN If(t.bc # st.tdh.bc, E(off, "441")) \o If(t.orbit # st.tdh.orbit, E(off, "442"))
                                                 \o If(t.tt # st.tdh.tt, E(off, "443"))
                              ELSE << >>)
                    [] kind = "unknown" -> << >>
             pint == IF st.tdh.has /\ st.tdh.internal = 1 THEN [has |-> TRUE, bc |-> st.tdh.bc] ELSE st.pint
             perErr == If(running /\ kind \in {"first", "next"} /\ st.period # NoPeriod /\ pint.has /\ t.internal = 1
                          /\ BcDist(t.bc, pint.bc) # st.period, E(off, "45"))
         IN [st |-> [st EXCEPT !.fsm = nxt, !.prev = st.tdh, !.tdh = t, !.pint = pint], errs |-> sane \o runErrs \o perErr, sod |-> sod]
      asIhw(initial) ==
         [st |-> [st EXCEPT !.fsm = nxt, !.lanes = IhwActiveLanes(w)],
          errs |-> If(~IhwSane(w), E(off, "30")) \o If(initial /\ running /\ Stop(r) # 0, E(off, "12")),
          sod |-> sod]
      asTdt == [st |-> [st EXCEPT !.fsm = nxt], errs |-> If(~TdtSane(w), E(off, "50")), sod |-> sod]
      asDdw == [st |-> [st EXCEPT !.fsm = nxt],
                errs |-> If(~Ddw0Sane(w), E(off, "60"))
                         \o If(running /\ Stop(r) # 1, E(off, "110")) \o If(running /\ Pages(r) = 0, E(off, "111")),
                sod |-> sod]
      asData ==
         LET id == Id(w) IN
         IF sod /\ id = ID_CDW
           THEN [st |-> IF running THEN [st EXCEPT !.fsm = nxt, !.cdw = [has |-> TRUE, user |-> CdwUser(w), idx |-> CdwIdx(w)]]
                                   ELSE [st EXCEPT !.fsm = nxt],
                 errs |-> If(running /\ st.cdw.has /\ st.cdw.user # CdwUser(w) /\ CdwIdx(w) # 0, E(off, "81")),
                 sod |-> FALSE]
           ELSE [st |-> [st EXCEPT !.fsm = nxt],
                 errs |-> If(~DataIdValid(id), E(off, "70"))
                          \o (IF ~running THEN << >>
                              ELSE IF IsIbId(id) THEN If(~LaneBit(IbLane(id), st.lanes), E(off, "72"))
                              ELSE IF IsObId(id) THEN If(~LaneBit(ObLane(id), st.lanes), E(off, "71")) \o If(ObInput(id) > 6, E(off, "73"))
                              ELSE << >>),
                 sod |-> FALSE]
      pre(res, code) == [res EXCEPT !.errs = E(off, code) \o res.errs]
  IN CASE cls = "IHW"      -> asIhw(TRUE)
       [] cls = "IHW_c"    -> asIhw(FALSE)
       [] cls = "TDH"      -> asTdh("first")
       [] cls = "TDH_next" -> asTdh("next")
       [] cls = "TDH_c"    -> asTdh("cont")
       [] cls = "TDT"      -> asTdt
       [] cls = "DDW0"     -> asDdw
       [] cls \in {"DATA", "CDW"} -> asData
       [] cls = "UNKNOWN" /\ s = "NODATA" -> pre(asTdh("unknown"), "990")
       [] cls = "UNKNOWN" /\ s = "DONE"   -> pre(asDdw, "992")
       [] cls = "UNKNOWN"                 -> pre(asData, "991")

RECURSIVE CheckWords(_, _, _, _, _, _, _)
CheckWords(st, r, running, sod, ws, i, pktOff) ==
   IF i > Len(ws) THEN [st |-> st, errs |-> << >>]
   ELSE LET one == CheckWord(st, r, running, sod, ws[i], WordOffset(pktOff, DataFormat(r), i - 1))
            rest == CheckWords(one.st, r, running, one.sod, ws, i + 1, pktOff)
        IN [st |-> rest.st, errs |-> one.errs \o rest.errs]

\* cfg: [running : BOOLEAN, its : BOOLEAN (target given: payload checked + system id rule)]
\* "PAYLOAD" is the code-less 'Payload error following RDH' message.
CheckPacket(st, pktOff, r, payload, cfg) ==
   LET fv == IF st.firstVer = 256 THEN Version(r) ELSE st.firstVer
       sane == If(SaneViolations(r, fv, cfg.its) # {}, E(pktOff, "10"))
       runE == If(cfg.running /\ RunViolations(st.run, r) # {}, E(pktOff, "11"))
       st1 == [st EXCEPT !.firstVer = fv, !.run = IF cfg.running THEN RunNext(st.run, r) ELSE st.run]
   IN IF ~cfg.its \/ payload = << >> THEN [st |-> st1, errs |-> sane \o runE]
      ELSE IF PadErr(payload) THEN [st |-> [st1 EXCEPT !.fsm = InitState], errs |-> sane \o runE \o E(pktOff, "PAYLOAD")]
      ELSE LET res == CheckWords(st1, r, cfg.running, TRUE, Cut(DataFormat(r), payload), 1, pktOff)
           IN [st |-> res.st, errs |-> sane \o runE \o res.errs]
=============================================================================
