------------------------------- MODULE Collector -------------------------------
(* Accounting, display and exit status (C16), as relations over one run.         *)
EXTENDS Naturals, Sequences, FiniteSets, TLC

\* cfg: [E |-> 0 (none) or 1..255, mute |-> BOOLEAN, codes |-> Seq(STRING) (empty = no filter), cap |-> Nat (0 = none)]
\* run: [reported |-> Seq([off, code]) (statistics file, sorted by offset), fatal |-> BOOLEAN, custom |-> Seq(STRING codes),
\*       mismatch |-> BOOLEAN, initFail |-> BOOLEAN]
Take(s, n) == IF n = 0 \/ n >= Len(s) THEN s ELSE SubSeq(s, 1, n)
InSeq(x, s) == \E i \in 1..Len(s) : s[i] = x
Total(run) == Len(run.reported) + Len(run.custom)
\* messages offered to the printer, in order: sorted reported errors, then the fatal message (it has no code), then custom-check failures
Offered(run) == [i \in 1..Len(run.reported) |-> run.reported[i].code]
                \o (IF run.fatal THEN << "FATAL" >> ELSE << >>) \o run.custom
Displayed(cfg, run) ==
   IF cfg.mute \/ Total(run) = 0 THEN << >>
   ELSE IF cfg.codes = << >> THEN Take(Offered(run), cfg.cap)
   ELSE Take(SelectSeq(Offered(run), LAMBDA c : InSeq(c, cfg.codes)), cfg.cap)
AnyErrors(run) == Total(run) > 0 \/ run.mismatch
\* as coded at the pinned commit (a fatal-only run exits 0)
ExitAsCoded(cfg, run) == IF run.initFail THEN 1 ELSE IF cfg.E # 0 /\ AnyErrors(run) THEN cfg.E ELSE 0
\* as the property states it
ExitIntended(cfg, run) == IF run.initFail THEN 1 ELSE IF cfg.E # 0 /\ (AnyErrors(run) \/ run.fatal) THEN cfg.E ELSE 0
================================================================================
