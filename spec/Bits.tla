-------------------------------- MODULE Bits --------------------------------
(* Byte-level helpers. A word / header is a sequence of integers 0..255,     *)
(* index 0 = first byte in the file (TLA+ sequences are 1-based, so B(w,i)   *)
(* reads element i+1).                                                       *)
EXTENDS Naturals, Sequences

B(w, i) == w[i + 1]
Pow2(k) == 2 ^ k
Bit(b, k) == (b \div Pow2(k)) % 2                 \* bit k of an integer
BitOf(w, n) == Bit(B(w, n \div 8), n % 8)          \* bit n (little endian) of a byte sequence
U16(w, i) == B(w, i) + 256 * B(w, i + 1)
U24(w, i) == U16(w, i) + 65536 * B(w, i + 2)
Bytes(w, i, n) == [k \in 1..n |-> w[i + k]]         \* n bytes starting at byte i
AllZero(w, i, n) == \A k \in 0..(n - 1) : B(w, i + k) = 0
IsByteSeq(w, n) == Len(w) = n /\ \A k \in 1..n : w[k] \in 0..255
=============================================================================
