SPECIFICATION TSpec
CONSTANTS ReaderCap = 100
  ValCap0 = 128
  Mode = "write"
  MainKeepsReceiver = FALSE
CONSTRAINT Reached
POSTCONDITION Accepted
CHECK_DEADLOCK FALSE
