----------------------------- MODULE MC_Payload ------------------------------
EXTENDS Payload, Mk, TLC, FiniteSets, Json
VARIABLE c
Alphabet == { MkIhw(7), MkTdh(3, 1, 0, 0, 5, 1001), MkTdh(16, 0, 1, 0, 0, 0), MkData(34, 160), MkData(34, 255) , MkTdt(1), MkTdt(0), MkDdw0,      \* TDT / DDW0 start with six zero bytes: in second position they look like a 16-byte slot
              <<255,255,255,255,255,255,255,255,255,34>>,       \* a data word full of 0xFF (only the id differs)
              <<1,2,3,4,5,6,7,8,9,255>>, <<0,0,0,0,0,0,0,0,255,255>> }      \* words that END in 0xFF (a corrupted identifier): their own bytes prolong the trailing 0xFF run
Seqs == UNION {[1..n -> Alphabet] : n \in 0..3}
\* fill: the six filler bytes of the LAST 16-byte slot in data format 0 (0x00 as a rule; 0xFF is not forbidden: only the first ten bytes are the word)
Init == c \in [df : {0, 2}, ws : Seqs, pad : 0..20, fill : {0, 255}]
Next == UNCHANGED c
Base == IF c.df = 2 \/ c.ws = << >> THEN Encode(c.df, c.ws, 0)
        ELSE LET e == Encode(0, c.ws, 0) IN [k \in 1..Len(e) |-> IF k > Len(e) - 6 THEN c.fill ELSE e[k]]
P == Base \o [k \in 1..c.pad |-> 255]
EndsFF(w) == w[10] = 255
Plain == (c.ws = << >> \/ ~EndsFF(c.ws[Len(c.ws)])) /\ (c.df = 2 \/ c.fill = 0 \/ c.ws = << >>)
\* where the trailing 0xFF run is exactly the padding, the cut gives back the words, and the payload error is raised iff the padding exceeds 15 bytes
CutExact == Plain => IF c.pad > 15 THEN PadErr(P) ELSE (~PadErr(P) /\ Cut(c.df, P) = c.ws)
\* in data format 0 the filler bytes never change the words (unless the run of 0xFF is long enough to be a payload error)
Fmt0Filler == (c.df = 0 /\ ~PadErr(P)) => Cut(0, P) = c.ws
\* every case is emitted with what the specification says about it (also the ambiguous ones: a last word ending in 0xFF followed by padding)
Emit == PrintT("CASE " \o ToJson([df |-> c.df, pad |-> c.pad, payload |-> P, paderr |-> PadErr(P), words |-> IF PadErr(P) THEN << >> ELSE Cut(c.df, P)]))
Offsets == \A i \in 1..Len(c.ws) : WordOffset(0, c.df, i - 1) = 64 + (i - 1) * (IF c.df = 0 THEN 16 ELSE 10)
==============================================================================
