----------------------------- MODULE MC_Payload ------------------------------
EXTENDS Payload, Mk, TLC, FiniteSets, Json
VARIABLE c
Alphabet == { MkIhw(7), MkTdh(3, 1, 0, 0, 5, 1001), MkTdh(16, 0, 1, 0, 0, 0), MkData(34, 160), MkData(34, 255) , MkTdt(1), MkTdt(0), MkDdw0,
              <<255,255,255,255,255,255,255,255,255,34>> }      \* a data word full of 0xFF (only the id differs)
Seqs == UNION {[1..n -> Alphabet] : n \in 0..3}
Init == c \in [df : {0, 2}, ws : Seqs, pad : 0..20]
Next == UNCHANGED c
P == Encode(c.df, c.ws, IF c.df = 0 THEN 0 ELSE c.pad)
\* second word (if any) never starts with six zero bytes in format 2 (grammar: it is a TDH) -- explicit assumption
Assumed == c.df = 2 /\ Len(c.ws) >= 2 => ~(\A k \in 1..6 : c.ws[2][k] = 0)
CutExact == Assumed => IF c.df = 2 /\ c.pad > 15 THEN PadErr(P) ELSE (~PadErr(P) /\ Cut(P) = c.ws)
Emit == Assumed => PrintT("CASE " \o ToJson([df |-> c.df, pad |-> c.pad, payload |-> P, paderr |-> (c.df = 2 /\ c.pad > 15), words |-> c.ws]))
Offsets == \A i \in 1..Len(c.ws) : WordOffset(0, c.df, i - 1) = 64 + (i - 1) * (IF c.df = 0 THEN 16 ELSE 10)
==============================================================================
