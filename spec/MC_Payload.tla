----------------------------- MODULE MC_Payload ------------------------------
EXTENDS Payload, Mk, TLC, FiniteSets, Json
VARIABLE c
Alphabet == { MkIhw(7), MkTdh(3, 1, 0, 0, 5, 1001), MkTdh(16, 0, 1, 0, 0, 0), MkData(34, 160), MkData(34, 255) , MkTdt(1), MkTdt(0), MkDdw0,      \* TDT / DDW0 start with six zero bytes: in second position they look like a 16-byte slot
              <<255,255,255,255,255,255,255,255,255,34>> }      \* a data word full of 0xFF (only the id differs)
Seqs == UNION {[1..n -> Alphabet] : n \in 0..3}
Init == c \in [df : {0, 2}, ws : Seqs, pad : 0..20]
Next == UNCHANGED c
P == Encode(c.df, c.ws, c.pad)
\* no word of the alphabet ends in 0xFF (identifiers are never 0xFF), so the trailing 0xFF run of P is exactly the padding
CutExact == IF c.pad > 15 THEN PadErr(P) ELSE (~PadErr(P) /\ Cut(c.df, P) = c.ws)
Emit == PrintT("CASE " \o ToJson([df |-> c.df, pad |-> c.pad, payload |-> P, paderr |-> (c.pad > 15), words |-> c.ws]))
Offsets == \A i \in 1..Len(c.ws) : WordOffset(0, c.df, i - 1) = 64 + (i - 1) * (IF c.df = 0 THEN 16 ELSE 10)
==============================================================================
