INIT Init
NEXT Next
CONSTANTS Senders = {"a","b"}
  Msgs <- MCMsgs
INVARIANTS Deterministic Emit
CHECK_DEADLOCK FALSE
