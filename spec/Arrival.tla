------------------------------- MODULE Arrival -------------------------------
(* Arrival orders at the statistics channel: every merge of the per-sender    *)
(* message sequences that keeps each sender's order; finalisation sorts by     *)
(* offset with ties in arrival order.                                          *)
EXTENDS Naturals, Sequences, FiniteSets, TLC, Json, SequencesExt
CONSTANTS Senders, Msgs      \* Msgs[s] = sequence of [off, id]
VARIABLES pos, arrived

Init == pos = [s \in Senders |-> 0] /\ arrived = << >>
Arrive(s) == /\ pos[s] < Len(Msgs[s])
             /\ pos' = [pos EXCEPT ![s] = @ + 1]
             /\ arrived' = Append(arrived, Msgs[s][pos[s] + 1])
Next == \E s \in Senders : Arrive(s)
Done == \A s \in Senders : pos[s] = Len(Msgs[s])

\* stable sort by offset = repeatedly extract, in arrival order, the messages with the smallest offset
RECURSIVE StableSort(_)
StableSort(q) == IF q = << >> THEN << >>
                 ELSE LET m == CHOOSE x \in {q[i].off : i \in 1..Len(q)} : \A i \in 1..Len(q) : x <= q[i].off
                      IN SelectSeq(q, LAMBDA e : e.off = m) \o StableSort(SelectSeq(q, LAMBDA e : e.off # m))
\* canonical result, independent of the arrival order: per offset, the owning sender's messages in its own order
AllMsgs == UNION {{Msgs[s][i] : i \in 1..Len(Msgs[s])} : s \in Senders}
TiesOneSender == \A s, t \in Senders : \A i \in 1..Len(Msgs[s]) : \A j \in 1..Len(Msgs[t]) :
                    Msgs[s][i].off = Msgs[t][j].off => s = t
RECURSIVE Concat(_)
Concat(ss) == IF ss = << >> THEN << >> ELSE Head(ss) \o Concat(Tail(ss))
Canon == StableSort(Concat([k \in 1..Cardinality(Senders) |-> Msgs[SetToSeq(Senders)[k]]]))
Deterministic == Done => StableSort(arrived) = Canon
Emit == Done => PrintT("ORDER " \o ToJson([order |-> [i \in 1..Len(arrived) |-> arrived[i].id], sorted |-> [i \in 1..Len(arrived) |-> StableSort(arrived)[i].id]]))
=============================================================================
