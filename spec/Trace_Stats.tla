------------------------------ MODULE Trace_Stats ------------------------------
EXTENDS Stats, TLC, Json, IOUtils
Rec == ndJsonDeserialize(IOEnv.TRACE)
VARIABLE l
Init == l = 1
Bad(tag, a, b) == PrintT("REJECT " \o ToJson([l |-> l, tag |-> tag, expected |-> a, observed |-> b]))
Chk(tag, a, b) == IF a = b THEN TRUE ELSE Bad(tag, a, b)
TrigNames == << "orbit", "hb", "hbr", "hc", "pht", "pp", "cal", "sot", "eot", "soc", "eoc", "tf", "fe_rst", "rt", "rs" >>
Next == /\ l <= Len(Rec)
        /\ LET ev == Rec[l]  t == Truth(ev.pk, ev.flt, ev.analysing)  s == ev.stats IN
           /\ Chk("rdhs_seen", t.rdhs_seen, s.rdhs_seen) /\ Chk("rdhs_filtered", t.rdhs_filtered, s.rdhs_filtered)
           /\ Chk("payload_size", t.payload_size, s.payload_size) /\ Chk("links", t.links, s.links) /\ Chk("fee_id", t.fee_id, s.fee_id)
           /\ Chk("rdh_version", t.rdh_version, s.rdh_version) /\ Chk("data_format", t.data_format, s.data_format)
           /\ Chk("system_id", t.system_id, s.system_id) /\ Chk("run_trigger_type", t.run_trigger, s.run_trigger)
           /\ Chk("hbfs_seen", t.hbfs_seen, s.hbfs_seen) /\ Chk("layer_staves", t.layer_staves, s.layer_staves)
           /\ \A n \in 1..15 : Chk(TrigNames[n], t.trig[n - 1], s.trig[n])
           /\ Chk("lhc_gap1", t.trig[27], s.trig[16]) /\ Chk("lhc_gap2", t.trig[28], s.trig[17]) /\ Chk("tpc_sync", t.trig[29], s.trig[18])
           /\ Chk("tpc_rst", t.trig[30], s.trig[19]) /\ Chk("tof", t.trig[31], s.trig[20])
           \* errors: the total equals the number of messages (in the file, and shown on stderr: nothing is muted / filtered / capped in these runs);
           \* the distinct codes are those of the messages shown
           /\ Chk("total_errors", s.reported, s.total_errors)
           /\ (IF ev.muted THEN TRUE ELSE Chk("errors_shown", Len(ev.shown), s.total_errors))          \* (a muted run shows nothing; its statistics are judged all the same)
           /\ (IF ev.muted THEN TRUE ELSE Chk("unique_error_codes", {ev.shown[k] : k \in 1..Len(ev.shown)} \ {"NOCODE"}, {s.unique_error_codes[k] : k \in 1..Len(s.unique_error_codes)}))
           \* the report (not printed in view mode / when data goes to stdout) shows the same values
           /\ (ev.report.has => /\ Chk("report_total_errors", ToString(s.total_errors), ev.report.total_errors)
                                /\ Chk("report_total_rdhs", ToString(t.rdhs_seen), ev.report.total_rdhs)
                                /\ Chk("report_version", ToString(t.rdh_version), ev.report.version)
                                /\ Chk("report_data_format", ToString(t.data_format), ev.report.df)
                                /\ (ev.analysing => Chk("report_hbfs", ToString(t.hbfs_seen), ev.report.hbfs))
                                /\ (ev.flt.k # "none" => Chk("report_rdhs_filtered", ToString(t.rdhs_filtered), ev.report.rdhs_filtered)))
        /\ l' = l + 1
Spec == Init /\ [][Next]_l
Accepted == IF TLCGet("stats").diameter - 1 = Len(Rec) THEN TRUE
            ELSE Print(<<"TRACE NOT ACCEPTED: matched", TLCGet("stats").diameter - 1, "of", Len(Rec)>>, FALSE)
================================================================================
