------------------------------- MODULE Grammar -------------------------------
(* Producer of protocol-conforming ITS streams (targets none / ITS, not stave) *)
(* composed with the per-link checker.  The producer remembers only grammar    *)
(* state; the checker consumes RDHs and words as they are produced; the        *)
(* emitted stream is a history variable hidden by the VIEW.                    *)
EXTENDS ItsChecker, Mk, TLC

CONSTANTS Links, MaxHbf, MaxPages, MaxWords, Df, Ver, Running, Its
VARIABLES g, chk, stream, errs
vars == << g, chk, stream, errs >>

FeeOf(l) == 4096 + 256 * (l % 3) + 7 + l          \* layer 1 (inner barrel), distinct staves
LanesOf(l) == 7
LaneIds == {32, 34}
BcDom == {0, 3563}                                 \* includes the accepting boundary 0xdeb
TtRdh(h) == IF h = 1 THEN 27139 ELSE 24595        \* 0x6A03, 0x6013
OrbitOf(h) == 1000 + h
Cfg == [running |-> Running, its |-> Its]

GInit == [hbf |-> 1, page |-> 0, fsm |-> "IHW", n |-> 0, rbc |-> 0, last |-> NoTdh, open |-> FALSE, sod |-> TRUE,
          cdwDone |-> FALSE, dataSeen |-> FALSE, done |-> FALSE, cur |-> 0]
Init == /\ g = [l \in Links |-> GInit] /\ chk = [l \in Links |-> LinkInit] /\ stream = << >> /\ errs = << >>

RdhOf(l, page, stop, bc) ==
   MkRdh([ver |-> Ver, fee |-> FeeOf(l), sys |-> 32, size |-> 64, link |-> l, pkt |-> 0, bc |-> bc, orbit |-> OrbitOf(g[l].hbf),
          df |-> Df, tt |-> TtRdh(g[l].hbf), page |-> page, stop |-> stop, det |-> 2048 + 16777216 + 15])     \* detector-field bits 11, 24 and the lane status bits: all legal
CurRdh(l) == stream[g[l].cur].rdh

\* ---- a new packet: the RDH is checked when it is produced ----
OpenPacket(l, stop, bc, g1) ==
   LET rdh == RdhOf(l, g[l].page, stop, bc)
       res == CheckPacket(chk[l], 0, rdh, << >>, Cfg)
   IN /\ stream' = Append(stream, [link |-> l, rdh |-> rdh, words |-> << >>])
      /\ chk' = [chk EXCEPT ![l] = res.st]
      /\ errs' = errs \o res.errs
      /\ g' = [g EXCEPT ![l] = [g1 EXCEPT !.cur = Len(stream) + 1, !.open = TRUE, !.sod = TRUE, !.n = 0, !.rbc = bc,
                                          !.dataSeen = FALSE, !.cdwDone = FALSE]]

OpenPage(l) == /\ ~g[l].done /\ ~g[l].open /\ g[l].page < MaxPages
               /\ \E bc \in BcDom : (g[l].page > 0 => bc = g[l].rbc) /\ OpenPacket(l, 0, bc, g[l])

AddWord(l, w) ==
   LET res == IF Its THEN CheckWord(chk[l], CurRdh(l), Running, g[l].sod, w, 0) ELSE [st |-> chk[l], errs |-> << >>, sod |-> FALSE]
   IN /\ g[l].open
      /\ chk' = [chk EXCEPT ![l] = res.st]
      /\ errs' = errs \o res.errs
      /\ stream' = [stream EXCEPT ![g[l].cur].words = Append(@, w)]
      /\ g' = [g EXCEPT ![l].n = @ + 1, ![l].fsm = Succ(g[l].fsm, w), ![l].sod = res.sod,
                        ![l].last = IF Id(w) = ID_TDH THEN TdhRec(w) ELSE @,
                        ![l].cdwDone = IF Id(w) = ID_CDW THEN TRUE ELSE @,
                        ![l].dataSeen = IF IsDataId(Id(w)) \/ Id(w) = ID_CDW THEN TRUE ELSE @]

EmitIhw(l) == g[l].open /\ g[l].n = 0 /\ Stop(CurRdh(l)) = 0 /\ g[l].fsm \in {"IHW", "c_IHW", "DONE", "NODATA"} /\ AddWord(l, MkIhw(LanesOf(l)))

EmitTdh(l) ==
  /\ g[l].open /\ g[l].n > 0 /\ (g[l].n + 1 < MaxWords \/ g[l].fsm = "c_TDH") /\ g[l].fsm \in {"TDH", "c_TDH", "DONE", "NODATA"}
  /\ LET h == g[l].hbf  s == g[l].fsm  first == (s = "TDH" /\ g[l].page = 0) IN
     \E nd \in {0, 1}, bc \in BcDom, kind \in {"int", "pht"} :
        /\ (s = "c_TDH") => (nd = 0 /\ bc = g[l].last.bc /\ kind = (IF g[l].last.internal = 1 THEN "int" ELSE "pht"))
        /\ first => (bc = g[l].rbc /\ kind = "int" /\ nd = 0)
        /\ (s # "c_TDH" /\ g[l].last.has) => bc >= g[l].last.bc
        /\ LET tt == IF s = "c_TDH" THEN g[l].last.tt ELSE IF first THEN TtRdh(h) % 4096 ELSE IF kind = "int" THEN 3 ELSE 16
               internal == IF s = "c_TDH" THEN g[l].last.internal ELSE IF kind = "int" THEN 1 ELSE 0
               cont == IF s = "c_TDH" THEN 1 ELSE 0
           IN AddWord(l, MkTdh(tt, internal, nd, cont, bc, OrbitOf(h)))

EmitCdw(l) == g[l].open /\ g[l].n + 1 < MaxWords /\ g[l].fsm = "DATA" /\ ~g[l].dataSeen /\ ~g[l].cdwDone /\ AddWord(l, MkCdw(9, g[l].hbf))
EmitData(l) == g[l].open /\ g[l].n + 1 < MaxWords /\ g[l].fsm \in {"DATA", "c_DATA"} /\ \E id \in LaneIds : AddWord(l, MkData(id, 160 + (id % 32)))
EmitTdt(l) == g[l].open /\ g[l].fsm \in {"DATA", "c_DATA"}
              /\ \E d \in {0, 1} : (d = 0 => g[l].page + 1 < MaxPages) /\ AddWord(l, MkTdt(d))

ClosePage(l) == /\ g[l].open /\ Stop(CurRdh(l)) = 0 /\ g[l].fsm \in {"DONE", "NODATA", "c_IHW"}
                /\ g' = [g EXCEPT ![l].open = FALSE, ![l].page = @ + 1]
                /\ UNCHANGED << chk, stream, errs >>

\* the stop page: RDH(stop=1) + DDW0, then the next HBF
StopPage(l) == /\ ~g[l].done /\ ~g[l].open /\ g[l].page >= 1 /\ g[l].fsm \in {"DONE", "NODATA"}
               /\ OpenPacket(l, 1, g[l].rbc, g[l])
EmitDdw0(l) == g[l].open /\ Stop(CurRdh(l)) = 1 /\ g[l].n = 0 /\ AddWord(l, MkDdw0)
CloseHbf(l) == /\ g[l].open /\ Stop(CurRdh(l)) = 1 /\ g[l].n = 1
               /\ g' = [g EXCEPT ![l].open = FALSE, ![l].page = 0, ![l].hbf = @ + 1, ![l].last = NoTdh, ![l].done = (g[l].hbf = MaxHbf)]
               /\ UNCHANGED << chk, stream, errs >>

Next == \E l \in Links : OpenPage(l) \/ EmitIhw(l) \/ EmitTdh(l) \/ EmitCdw(l) \/ EmitData(l) \/ EmitTdt(l)
                         \/ ClosePage(l) \/ StopPage(l) \/ EmitDdw0(l) \/ CloseHbf(l)
AllDone == \A l \in Links : g[l].done
Spec == Init /\ [][Next]_vars
NoFalseAlarm == errs = << >>
AbsView == << [l \in Links |-> [g[l] EXCEPT !.cur = 0]], chk, errs >>
===============================================================================
