------------------------------- MODULE Grammar -------------------------------
(* The conforming producer composed with the checker: GrammarF with the fault  *)
(* actions disabled (Faults = FALSE in the configurations that use it).        *)
EXTENDS GrammarF
===============================================================================
