------------------------------ MODULE Trace_Pipe2 ------------------------------
(* Trace validation of the hooked binary against Pipe2 (real capacities).        *)
(* Every recorded event must be explained by the corresponding action; steps the *)
(* hooks cannot see (enqueue, dequeue, loop-head stop checks, end of input, the  *)
(* stop flag raised from outside) are silent steps between two events.           *)
(* Acceptance: some behaviour consumes the whole trace (highest consumed index   *)
(* kept in a TLC register; depth-first queue).                                   *)
EXTENDS Pipe2, Json, IOUtils
Rec == ndJsonDeserialize(IOEnv.TRACE)
VARIABLE l
tv == << allvars, l >>
TInit == Init /\ asend = 0 /\ l = 1
Ev(t, e) == l <= Len(Rec) /\ Rec[l].t = t /\ Rec[l].e = e /\ l' = l + 1
Keep == UNCHANGED asend
\* silent steps (not recorded): they do not consume the trace
Silent == /\ UNCHANGED l
          /\ \/ (REnqueue /\ Keep) \/ (ACheck /\ Keep) \/ (ATake /\ Keep) \/ (\E v \in Spawned : VTake(v) /\ Keep)
             \/ (AEnqueue) \/ (RCheckStop /\ Keep) \/ (REofExit /\ Keep) \/ (WTake /\ Keep) \/ (ADrop /\ Keep) \/ (WDrop /\ Keep)
             \/ (ExtStop /\ Keep /\ l <= Len(Rec) /\ Rec[l].stopnow)
Observed ==
   \/ Ev("R", "send_start") /\ RSendStart(Rec[l].a) /\ Keep
   \/ Ev("R", "send_done") /\ (\E b \in BOOLEAN : RSendDone(b)) /\ Keep
   \/ Ev("R", "send_fail") /\ RSendFail /\ Keep
   \/ Ev("R", "exit") /\ rpc = "done" /\ UNCHANGED allvars
   \/ Ev("A", "recv") /\ ARecv(Rec[l].a) /\ Keep
   \/ Ev("A", "recv_disc") /\ ARecvDisc /\ Keep
   \/ Ev("A", "view_ok") /\ AView /\ Keep
   \/ Ev("A", "view_err") /\ AView /\ Keep
   \/ Ev("A", "spawn") /\ ASpawn(Rec[l].a) /\ Keep
   \/ Ev("A", "dispatch") /\ ADispatchStartL(Rec[l].a)
   \/ Ev("A", "join_start") /\ AJoinStart /\ Keep
   \/ Ev("A", "exit") /\ AExit /\ Keep
   \/ Ev("V", "recv") /\ VRecv(Rec[l].a) /\ Keep
   \/ Ev("V", "exit") /\ VExit(Rec[l].a) /\ Keep
   \/ Ev("W", "recv") /\ WRecv /\ Keep
   \/ Ev("W", "stop_break") /\ WStopBreak /\ Keep
   \/ Ev("W", "pushed") /\ WPushed /\ Keep
   \/ Ev("W", "recv_disc") /\ WRecvDisc /\ Keep
   \/ Ev("M", "drop_recv") /\ MDrop /\ Keep
   \/ Ev("M", "forward_end") /\ MForwardEnd /\ Keep
   \/ Ev("M", "joined_R") /\ UNCHANGED allvars
   \/ Ev("M", "joined_AW") /\ MJoined /\ Keep
   \/ Ev("C", "stat") /\ CRecv(FALSE) /\ Keep
   \/ Ev("C", "err") /\ (\E b \in BOOLEAN : CRecv(b)) /\ Keep
   \/ Ev("C", "fatal") /\ CRecv(TRUE) /\ Keep
   \/ Ev("C", "closed") /\ CClosed /\ Keep
TNext == Silent \/ Observed
TSpec == TInit /\ [][TNext]_tv
\* acceptance: some behaviour consumes the whole trace
Reached == IF l > TLCGet(1) THEN TLCSet(1, l) ELSE TRUE
Accepted == IF TLCGet(1) = Len(Rec) + 1 THEN TRUE
            ELSE Print(<<"TRACE NOT ACCEPTED: consumed", TLCGet(1) - 1, "of", Len(Rec), "next event", Rec[TLCGet(1)]>>, FALSE)
ASSUME TLCSet(1, 0)
================================================================================
