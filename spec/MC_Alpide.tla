------------------------------ MODULE MC_Alpide ------------------------------
(* C13 design check: the decoder-based frame verdict equals the declarative    *)
(* rule, whatever the hit content; and every case as a one-frame stream.       *)
EXTENDS ItsStave, Mk, TLC, Json
VARIABLE c

\* a lane description: [id (data word id), chip (chip id), bc, shape]
Shapes == {"E", "H", "X", "Z"}      \* Z: hits whose payload bytes are 0xA?/0xB?/0xF4 look-alikes
ChipBytes(shape, id, abc) ==
   CASE shape = "E" -> << 224 + id, abc >>
     [] shape = "H" -> << 160 + id, abc, 192 + 5, 64 + 9, 160, 176 >>
     [] shape = "X" -> << 160 + id, abc, 192, 9, 160, 127, 241, 64 + 1, 176 + 1, 240, 200, 64, 0, 176 + 4 >>
     [] shape = "Z" -> << 160 + id, abc, 193, 64 + 2, 244, 65, 176, 3, 224, 100, 70, 165, 176 + 8 >>
Pad9(bs) == bs \o [k \in 1..((9 - (Len(bs) % 9)) % 9) |-> 0]
LaneWordsOf(ln) == LET bs == Pad9(ChipBytes(ln.shape, ln.chip, ln.bc)) IN
                   [k \in 1..(Len(bs) \div 9) |-> SubSeq(bs, 9 * (k - 1) + 1, 9 * k) \o << ln.id >>]
RECURSIVE FlatS(_)
FlatS(ss) == IF ss = << >> THEN << >> ELSE Head(ss) \o FlatS(Tail(ss))

\* frame variants: which barrel, which lanes (data word ids minus the barrel's base), which chip ids, which bunch counters
\* inner barrel: lane numbers; lane i gets chip id = lane unless badChip = i (then lane+1)
IbLaneSets == { <<3, 4, 5>>, <<0, 1, 2>>, <<6, 7, 8>>, <<3, 4>>, <<3, 4, 5, 6>>, <<2, 3, 4>>, <<0, 4, 8>>, <<5, 4, 3>> }
\* middle / outer barrel: data word ids; each lane carries chips 0..6; badChip = i: chip 3 of lane i has another bunch counter
MlIdsLegal == << 67, 68, 69, 70, 72, 73, 74, 75 >>
OlIdsLegal == << 64, 65, 66, 67, 68, 69, 70, 72, 73, 74, 75, 76, 77, 78 >>
ObLaneSets(legal) == { legal, SubSeq(legal, 1, Len(legal) - 1), SubSeq(legal, 2, Len(legal)), legal \o << 80 >>,
                       [i \in 1..Len(legal) |-> legal[Len(legal) + 1 - i]] }
BcPairs == {<<17, 17>>, <<17, 200>>, <<0, 0>>, <<0, 17>>}
Cases == [barrel : {"IB"}, lanes : IbLaneSets, badChip : {0, 1, 2}, bcs : BcPairs, shape : Shapes]
         \cup [barrel : {"ML"}, lanes : ObLaneSets(MlIdsLegal), badChip : {0, 2}, bcs : BcPairs, shape : {"E", "Z"}]
         \cup [barrel : {"OL"}, lanes : ObLaneSets(OlIdsLegal), badChip : {0, 2}, bcs : BcPairs, shape : {"E", "Z"}]
\* bunch counter bcs[1] except the last lane gets bcs[2]
ObChipBytes(x, i) == FlatS([k \in 1..7 |-> ChipBytes(IF i = 1 /\ k = 1 THEN x.shape ELSE "E", k - 1,
                                                     IF x.badChip = i /\ k = 4 THEN (x.bcs[1] + 1) % 256
                                                     ELSE IF i = Len(x.lanes) THEN x.bcs[2] ELSE x.bcs[1])])
LanesOf(x) == [i \in 1..Len(x.lanes) |-> [id |-> 32 + x.lanes[i],
                                           chip |-> IF x.badChip = i THEN (x.lanes[i] + 1) % 16 ELSE x.lanes[i],
                                           bc |-> IF i = Len(x.lanes) THEN x.bcs[2] ELSE x.bcs[1],
                                           shape |-> IF i = 1 THEN x.shape ELSE "E"]]
ObLaneWords(x, i) == LET bs == Pad9(ObChipBytes(x, i)) IN
                     [k \in 1..(Len(bs) \div 9) |-> SubSeq(bs, 9 * (k - 1) + 1, 9 * k) \o << x.lanes[i] >>]
\* ---- the declarative rule (C13) ----
SetOf(q) == {q[i] : i \in 1..Len(q)}
FrameOK(x) == /\ IF x.barrel = "IB" THEN SetOf(x.lanes) \in IbGroups /\ Len(x.lanes) = 3
                 ELSE Len(x.lanes) = ExpectLanes(x.barrel)                       \* 8 middle, 14 outer; any lane ids (no grouping rule outside the inner barrel)
              /\ x.bcs[1] = x.bcs[2]
              /\ x.badChip = 0 \/ x.badChip > Len(x.lanes)
\* ---- the decoder-based verdict ----
Words(x) == IF x.barrel = "IB" THEN FlatS([i \in 1..Len(x.lanes) |-> LaneWordsOf(LanesOf(x)[i])])
            ELSE FlatS([i \in 1..Len(x.lanes) |-> ObLaneWords(x, i)])
RECURSIVE Store(_, _)
Store(lanes, ws) == IF ws = << >> THEN lanes ELSE Store(StoreLane(lanes, Head(ws)), Tail(ws))
Verdict(x) == FrameResult([FrInit EXCEPT !.has = TRUE, !.start = 74, !.lanes = Store(<< >>, Words(x))], x.barrel)

Init == c \in Cases
Next == UNCHANGED c
Agree == LET v == Verdict(c) IN ~v.panic /\ ((v.errs = << >>) <=> FrameOK(c))
\* hit content does not matter
HitIndependent == \A s \in Shapes : Verdict([c EXCEPT !.shape = s]).errs = Verdict(c).errs

\* one-frame stream: page 0 (IHW, TDH, data words, TDT) + stop page (DDW0)
LaneNos == IF c.barrel = "IB" THEN SetOf(c.lanes) ELSE {ObLane(c.lanes[i]) : i \in 1..Len(c.lanes)}
LaneMask == LET RECURSIVE Sum(_) Sum(T) == IF T = {} THEN 0 ELSE LET y == CHOOSE y \in T : TRUE IN Pow2(y) + Sum(T \ {y}) IN Sum(LaneNos)
FeeOfCase == CASE c.barrel = "IB" -> 4096 + 7 [] c.barrel = "ML" -> 3 * 4096 + 256 + 9 [] c.barrel = "OL" -> 6 * 4096 + 512 + 47
Pkt(words, page, stop) == LET pl == Encode(2, words, (16 - ((10 * Len(words)) % 16)) % 16) IN
   MkRdh([ver |-> 7, fee |-> FeeOfCase, sys |-> 32, size |-> 64 + Len(pl), link |-> 3, pkt |-> page, bc |-> 5, orbit |-> 1001, df |-> 2,
          tt |-> 27139, page |-> page, stop |-> stop, det |-> 0]) \o pl
Stream == << Pkt(<< MkIhw(LaneMask), MkTdh(2563, 1, 0, 0, 5, 1001) >> \o Words(c) \o << MkTdt(1) >>, 0, 0), Pkt(<< MkDdw0 >>, 1, 1) >>
Emit == PrintT("FRAME " \o ToJson([ok |-> FrameOK(c), errs |-> Verdict(c).errs, pk |-> Stream]))
==============================================================================
