SPECIFICATION Spec
CONSTANTS Links = {5}
  MaxHbf = 1
  MaxPages = 2
  MaxWords = 5
  Df = 0
  Ver = 6
  Running = TRUE
  Its = TRUE
  Faults = TRUE
  Ob = TRUE
INVARIANTS NoFalseAlarm FaultDetected Dump
VIEW AbsView
CHECK_DEADLOCK FALSE
