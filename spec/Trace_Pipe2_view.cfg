SPECIFICATION TSpec
CONSTANTS ReaderCap = 100
  ValCap0 = 128
  Mode = "view"
  MainKeepsReceiver = FALSE
CONSTRAINT Reached
POSTCONDITION Accepted
CHECK_DEADLOCK FALSE
