-------------------------------- MODULE Custom --------------------------------
(* C20: user-configured checks. cfg fields use NoVal for "key absent".           *)
EXTENDS Stats
NoVal == 100000
\* truth: [cdps, pht, version, chips (count per outer-barrel lane), order (sequence of chip ids)], stave: its-stave mode
\* ob: the data is from the outer barrel (the chip count / chip order keys are outer-barrel rules: on inner-barrel data they change nothing)
\* checking: a check command runs (the RDH version is a rule of the RDH checks; the two counts are compared at the end of EVERY run - checks, views,
\* filtered writing - with what that run collected)
ExpectedCodesIn(cfg, truth, stave, ob, checking) ==
       (IF cfg.cdps # NoVal /\ cfg.cdps # truth.cdps THEN {"9001"} ELSE {})
  \cup (IF cfg.pht # NoVal /\ cfg.pht # truth.pht THEN {"9002"} ELSE {})
  \cup (IF checking /\ cfg.version # NoVal /\ cfg.version # truth.version THEN {"10"} ELSE {})
  \cup (IF stave /\ ob /\ cfg.chips # NoVal /\ cfg.chips # truth.chips THEN {"9004"} ELSE {})
  \cup (IF stave /\ ob /\ cfg.orders # << >> /\ (cfg.chips = NoVal \/ cfg.chips = truth.chips)
           /\ ~(\E i \in 1..Len(cfg.orders) : cfg.orders[i] = truth.order) THEN {"9005"} ELSE {})
ExpectedCodes(cfg, truth, stave, ob) == ExpectedCodesIn(cfg, truth, stave, ob, TRUE)
================================================================================
