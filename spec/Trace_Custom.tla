------------------------------ MODULE Trace_Custom ------------------------------
EXTENDS Custom, TLC, Json, IOUtils
Rec == ndJsonDeserialize(IOEnv.TRACE)
VARIABLE l
Init == l = 1
Watched == {"9001", "9002", "10", "9004", "9005"}
Next == /\ l <= Len(Rec)
        /\ LET ev == Rec[l]
               t == Truth(ev.pk, ev.flt, ev.analysing)
               truth == [cdps |-> t.rdhs_seen, pht |-> t.trig[4], version |-> t.rdh_version, chips |-> ev.chips, order |-> ev.order]
               exp == ExpectedCodesIn(ev.cfg, truth, ev.stave, ev.ob, ev.checking)
               obs == {ev.codes[i] : i \in 1..Len(ev.codes)} \cap Watched
           IN /\ IF exp = obs THEN TRUE ELSE PrintT("REJECT " \o ToJson([l |-> l, tag |-> "codes", expected |-> exp, observed |-> obs]))
              \* the streams are conforming: the any-errors exit status (77) is returned exactly when a configured check fails
              /\ IF ev.rc = (IF exp = {} THEN 0 ELSE 77) THEN TRUE
                 ELSE PrintT("REJECT " \o ToJson([l |-> l, tag |-> "exit", expected |-> (IF exp = {} THEN 0 ELSE 77), observed |-> ev.rc]))
        /\ l' = l + 1
Spec == Init /\ [][Next]_l
Accepted == IF TLCGet("stats").diameter - 1 = Len(Rec) THEN TRUE
            ELSE Print(<<"TRACE NOT ACCEPTED: matched", TLCGet("stats").diameter - 1, "of", Len(Rec)>>, FALSE)
=================================================================================
