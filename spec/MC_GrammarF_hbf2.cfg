SPECIFICATION Spec
CONSTANTS Links = {3}
  MaxHbf = 2
  MaxPages = 2
  MaxWords = 3
  Df = 2
  Ver = 7
  Running = TRUE
  Its = TRUE
  Faults = TRUE
  Ob = FALSE
INVARIANTS NoFalseAlarm FaultDetected Dump
VIEW AbsView
CHECK_DEADLOCK FALSE
