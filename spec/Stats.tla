--------------------------------- MODULE Stats ---------------------------------
(* Ground truth of the collected statistics (C14), from the headers of the input. *)
EXTENDS Rdh, FiniteSets

\* pk: sequence of 64-byte headers in file order
\* flt: a record [k, v]: k = "none" | "link" (v = link id: --filter-link) | "fee" (v = FEE id: --filter-fee)
\*      | "stave" (v = <<layer, stave>>: --filter-its-stave L<layer>_<stave>)
NoFilter == [k |-> "none", v |-> 0]
Matches(r, flt) == CASE flt.k = "none" -> TRUE
                     [] flt.k = "link" -> LinkId(r) = flt.v
                     [] flt.k = "fee" -> FeeId(r) = flt.v
                     [] flt.k = "stave" -> Layer(FeeId(r)) = flt.v[1] % 8 /\ Stave(FeeId(r)) = flt.v[2] % 64       \* the option's numbers are masked to 3 and 6 bits (words/its.rs)
Analysed(pk, flt) == SelectSeq(pk, LAMBDA r : Matches(r, flt))
RECURSIVE SumPay(_, _)
SumPay(s, i) == IF i > Len(s) THEN 0 ELSE (MemSize(s[i]) - 64) + SumPay(s, i + 1)
RECURSIVE Uniq(_, _, _)      \* first-seen order, no duplicates
Uniq(s, i, acc) == IF i > Len(s) THEN acc
                   ELSE Uniq(s, i + 1, IF \E k \in 1..Len(acc) : acc[k] = s[i] THEN acc ELSE Append(acc, s[i]))
Map(s, Op(_)) == [i \in 1..Len(s) |-> Op(s[i])]
RECURSIVE SortSet(_)
SortSet(S) == IF S = {} THEN << >> ELSE LET m == CHOOSE x \in S : \A y \in S : x <= y IN << m >> \o SortSet(S \ {m})
CountIf(s, P(_)) == Cardinality({i \in 1..Len(s) : P(s[i])})
TrigBit(r, n) == BitOf(r, 256 + n) = 1                     \* trigger type starts at byte 32
Truth(pk, flt, analysing) ==
   LET an == IF analysing THEN Analysed(pk, flt) ELSE << >> IN
   [ rdhs_seen |-> Len(pk),
     rdhs_filtered |-> IF flt.k = "none" THEN 0 ELSE Len(Analysed(pk, flt)),
     payload_size |-> SumPay(Analysed(pk, flt), 1),
     links |-> SortSet({LinkId(pk[i]) : i \in 1..Len(pk)}),
     fee_id |-> Uniq(Map(pk, FeeId), 1, << >>),
     rdh_version |-> Version(pk[1]),
     data_format |-> DataFormat(pk[1]),
     system_id |-> SystemId(pk[1]),
     run_trigger |-> TrigBytes(pk[1]),
     hbfs_seen |-> CountIf(an, LAMBDA r : Stop(r) = 1),
     layer_staves |-> IF an # << >> /\ SystemId(an[1]) = 32 THEN      \* (the detector of an analysis is that of the first packet it is given: behind a filter, the first selected one)
                      Uniq(Map(an, LAMBDA r : << Layer(FeeId(r)), Stave(FeeId(r)) >>), 1, << >>) ELSE << >>,
     trig |-> [n \in 0..31 |-> CountIf(an, LAMBDA r : TrigBit(r, n))] ]
================================================================================
