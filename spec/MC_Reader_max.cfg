INIT Init
NEXT Next
CONSTANTS Lens = {1, 2, 3}
  Sizes = {80, 10064}
  Pkts <- LinkPkts
  Filters <- LinkFilters
  CutMode = "all"
  Cap = 2
  Defect = "none"
INVARIANTS Refines TrackedIsTrue OffsetsTrue BatchesFull
CHECK_DEADLOCK FALSE
