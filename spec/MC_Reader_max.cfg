INIT Init
NEXT Next
CONSTANTS MaxLen = 3
  Sizes = {80, 10064}
  Cap = 2
  Defect = "none"
INVARIANTS Refines TrackedIsTrue OffsetsTrue BatchesFull
CHECK_DEADLOCK FALSE
