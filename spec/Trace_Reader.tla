------------------------------ MODULE Trace_Reader ------------------------------
(* Recorded scanner steps of the hooked binary against Reader (the scanner as     *)
(* coded).  Events (thread "S"):                                                  *)
(*   Case    [pk : Seq([link, fee, size]), filter [k, v], skip, src, cut]   one run starts     *)
(*   rdh     a = tracked offset when an RDH has been read, b = its offset to next, *)
(*           c = its link id                                                      *)
(*   deliver a = offset attached to the packet, b = payload bytes handed over      *)
(* CheckOffset, Filter, the batch bookkeeping and the end of the scan are silent.  *)
(* The recorded tracked offset must be the specification's, the RDH read must be   *)
(* the one that is stored at the specification's reader position, and the offset   *)
(* and payload length handed over must be the specified ones.                      *)
EXTENDS Reader, Json, IOUtils
Rec == ndJsonDeserialize(IOEnv.TRACE)
VARIABLE l
tv == << stream, filter, skip, src, cut, rvars, l >>
TInit == l = 1 /\ RInit /\ stream = << >> /\ filter = [k |-> "none", v |-> 0] /\ skip = FALSE /\ src = "file" /\ cut = 0
Ev(e) == l <= Len(Rec) /\ Rec[l].e = e /\ l' = l + 1
KeepCase == UNCHANGED << stream, filter, skip, src, cut >>
NewCase == /\ Ev("Case") /\ stream' = Rec[l].pk /\ filter' = Rec[l].filter /\ skip' = Rec[l].skip /\ src' = Rec[l].src /\ cut' = Rec[l].cut
           /\ pos' = 0 /\ tracked' = 0 /\ pc' = "load" /\ cur' = NoCur /\ batch' = << >> /\ sent' = << >> /\ cdpoff' = 0
           /\ rseen' = 0 /\ rfilt' = 0 /\ rpay' = 0 /\ rerrs' = << >> /\ rfatal' = FALSE
Silent == UNCHANGED l /\ KeepCase /\ (CheckOffset \/ Filter \/ Deliver \/ (LoadRdh /\ pc' = "done"))
Observed ==
   \/ /\ Ev("rdh") /\ KeepCase /\ LoadRdh /\ pc' = "check"
      /\ tracked = Rec[l].a /\ cur'.size = Rec[l].b /\ cur'.link = Rec[l].c
   \/ /\ Ev("deliver") /\ KeepCase /\ Payload
      /\ Rec[l].a = (IF Defect = "offset-before-skip" THEN cdpoff ELSE tracked)
      /\ Rec[l].b = (LET last == batch'[Len(batch')] IN IF last.payload = "full" THEN cur.size - 64 ELSE 0)
TNext == NewCase \/ Silent \/ Observed
TSpec == TInit /\ [][TNext]_tv
Reached == IF l > TLCGet(1) THEN TLCSet(1, l) ELSE TRUE
Accepted == IF TLCGet(1) = Len(Rec) + 1 THEN TRUE
            ELSE Print(<<"TRACE NOT ACCEPTED: consumed", TLCGet(1) - 1, "of", Len(Rec), "next event", Rec[TLCGet(1)]>>, FALSE)
ASSUME TLCSet(1, 0)
================================================================================
