------------------------------ MODULE Trace_Stave ------------------------------
EXTENDS ItsStave, TLC, Json, IOUtils
Rec == ndJsonDeserialize(IOEnv.TRACE)
VARIABLES l, st, panicked, exp, obs, period, custom
tvars == << l, st, panicked, exp, obs, period, custom >>
Count(x, s) == Cardinality({i \in 1..Len(s) : s[i] = x})
SameBag(a, b) == Len(a) = Len(b) /\ \A i \in 1..Len(a) : Count(a[i], a) = Count(a[i], b)
Get(k) == IF k \in DOMAIN st THEN st[k] ELSE [StaveInit EXCEPT !.ck.period = period, !.fr.custom = custom]
Put(k, v) == [x \in DOMAIN st \cup {k} |-> IF x = k THEN v ELSE st[x]]
Init == l = 1 /\ st = [k \in {} |-> StaveInit] /\ panicked = FALSE /\ exp = << >> /\ obs = << >> /\ period = NoPeriod /\ custom = NoCustom
IsEvent(k) == l <= Len(Rec) /\ Rec[l].e = k /\ l' = l + 1
TraceCfg == IsEvent("Cfg") /\ st' = [k \in {} |-> StaveInit] /\ panicked' = FALSE /\ exp' = << >> /\ obs' = << >> /\ period' = Rec[l].period
            /\ custom' = (IF "custom" \in DOMAIN Rec[l] THEN Rec[l].custom ELSE NoCustom)
TracePkt == /\ IsEvent("Pkt")
            /\ LET ev == Rec[l]
                   key == U16(ev.rdh, 2)
                   res == CheckPacketS(Get(key), ev.off, ev.rdh, ev.payload)
               IN /\ exp' = IF panicked THEN exp ELSE exp \o res.errs
                  /\ obs' = obs \o ev.errs
                  /\ st' = Put(key, res.st)
                  /\ panicked' = (panicked \/ res.panic) /\ UNCHANGED << period, custom >>
TraceEnd == /\ IsEvent("End")
            /\ IF (Rec[l].rc = 134) = panicked THEN TRUE ELSE PrintT("REJECT " \o ToJson([l |-> l, tag |-> "end", expected |-> panicked, observed |-> Rec[l].rc]))
            /\ IF panicked \/ SameBag(exp, obs) THEN TRUE
               ELSE PrintT("REJECT " \o ToJson([l |-> l, tag |-> "errors", expected |-> SelectSeq(exp, LAMBDA e : Count(e, exp) # Count(e, obs)), observed |-> SelectSeq(obs, LAMBDA e : Count(e, exp) # Count(e, obs))]))
            \* the ALPIDE readout-flag statistics of the run = the flags of the chip trailers of all closed frames of all FEE ids
            /\ (("flags" \in DOMAIN Rec[l]) =>
                   LET RECURSIVE Tot(_)
                       Tot(S) == IF S = {} THEN NoFlags ELSE LET k == CHOOSE k \in S : TRUE IN AddFlags(st[k].fr.flags, Tot(S \ {k}))
                       want == Tot(DOMAIN st)
                   IN IF panicked \/ want = Rec[l].flags THEN TRUE
                      ELSE PrintT("REJECT " \o ToJson([l |-> l, tag |-> "flags", expected |-> want, observed |-> Rec[l].flags])))
            /\ UNCHANGED << st, panicked, exp, obs, period, custom >>
Next == TraceCfg \/ TracePkt \/ TraceEnd
Spec == Init /\ [][Next]_tvars
Accepted == IF TLCGet("stats").diameter - 1 = Len(Rec) THEN TRUE
            ELSE Print(<<"TRACE NOT ACCEPTED: matched", TLCGet("stats").diameter - 1, "of", Len(Rec)>>, FALSE)
================================================================================
