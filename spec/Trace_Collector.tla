---------------------------- MODULE Trace_Collector ----------------------------
EXTENDS Collector, Json, IOUtils
Rec == ndJsonDeserialize(IOEnv.TRACE)
VARIABLE l
Init == l = 1
Why(tag, a, b) == PrintT("REJECT " \o ToJson([l |-> l, tag |-> tag, expected |-> a, observed |-> b]))    \* reported; the rest of the trace is still judged
Next == /\ l <= Len(Rec)
        /\ LET ev == Rec[l] cfg == ev.cfg run == ev.run IN
           /\ IF ev.total_stats = Total(run) THEN TRUE ELSE Why("total_stats", Total(run), ev.total_stats)
           /\ IF ev.has_report => ev.total_report = Total(run) THEN TRUE ELSE Why("total_report", Total(run), ev.total_report)
           /\ IF ev.displayed = Displayed(cfg, run) THEN TRUE ELSE Why("displayed", Displayed(cfg, run), ev.displayed)
           /\ IF ev.rc = ExitIntended(cfg, run) THEN TRUE ELSE Why("exit", ExitIntended(cfg, run), ev.rc)
        /\ l' = l + 1
Spec == Init /\ [][Next]_l
Accepted == IF TLCGet("stats").diameter - 1 = Len(Rec) THEN TRUE
            ELSE Print(<<"TRACE NOT ACCEPTED: matched", TLCGet("stats").diameter - 1, "of", Len(Rec)>>, FALSE)
================================================================================
