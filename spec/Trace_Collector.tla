---------------------------- MODULE Trace_Collector ----------------------------
EXTENDS Collector, Json, IOUtils
Rec == ndJsonDeserialize(IOEnv.TRACE)
VARIABLE l
Init == l = 1
Why(tag, a, b) == PrintT("REJECT " \o ToJson([l |-> l, tag |-> tag, expected |-> a, observed |-> b]))    \* reported; the rest of the trace is still judged
Next == /\ l <= Len(Rec)
        /\ LET ev == Rec[l] cfg == ev.cfg run == ev.run IN
           CASE ev.kind = "run" ->
                /\ IF ev.total_stats = Total(run) THEN TRUE ELSE Why("total_stats", Total(run), ev.total_stats)
                /\ IF ev.has_report => ev.total_report = Total(run) THEN TRUE ELSE Why("total_report", Total(run), ev.total_report)
                /\ IF ev.displayed = Displayed(cfg, run) THEN TRUE ELSE Why("displayed", Displayed(cfg, run), ev.displayed)
                /\ IF cfg.cap = 0 \/ Len(ev.displayed) <= cfg.cap THEN TRUE ELSE Why("cap", cfg.cap, Len(ev.displayed))
                /\ IF ev.rc = ExitIntended(cfg, run) THEN TRUE ELSE Why("exit", ExitIntended(cfg, run), ev.rc)
                \* an input with a framing error in a packet the scanner reaches: the fatal error is reported (also when a filter skips that packet)
                /\ IF ("must_fatal" \in DOMAIN ev /\ ev.must_fatal) => run.fatal THEN TRUE ELSE Why("fatal_reported", TRUE, run.fatal)
                \* a statistics file of another input is reported as not matching, the run's own file as matching (C15 round trip)
                /\ IF cfg.mute \/ ev.mismatch_reported = run.mismatch THEN TRUE ELSE Why("mismatch_reported", run.mismatch, ev.mismatch_reported)
             \* the muted and the unmuted run of one input, mode and option set: same error total, same exit status
             [] ev.kind = "mutepair" -> IF ev.plain = ev.muted THEN TRUE ELSE Why("mute_changes_findings", ev.plain, ev.muted)
             \* invalid option combinations are refused (non-zero status) before any output is written
             [] ev.kind = "badoptions" ->
                /\ IF ev.rc # 0 THEN TRUE ELSE Why("refused", "non-zero", ev.rc)
                /\ IF ~ev.outputs_exist THEN TRUE ELSE Why("no_output", FALSE, ev.outputs_exist)
             \* an invocation the documentation declares neither valid nor invalid (a reference statistics file whose extension is json / toml in another
             \* spelling): it is either refused like an invalid one (non-zero status, no panic, nothing written) or processed like a valid one (status 0 / -E value)
             [] ev.kind = "borderline" ->
                IF \/ ev.rc # 0 /\ ev.rc < 128 /\ ~ev.panicked /\ ~ev.outputs_exist
                   \/ ev.rc \in {0, cfg.E} /\ ~ev.panicked
                THEN TRUE ELSE Why("refused_or_processed", "refused before any output, or processed", [rc |-> ev.rc, outputs |-> ev.outputs_exist, panicked |-> ev.panicked])
             \* an invocation shape with the verdict of Options!Valid: a valid one is processed (status 0 or the -E value, the requested statistics file
             \* exists), an invalid one is refused (another status, not a signal, no panic) before anything is written or printed
             [] ev.kind = "shape" ->
                IF ev.valid
                  THEN IF ev.rc \in {0, cfg.E} /\ ~ev.panicked /\ (ev.want_stats => ev.stats_exist) /\ (ev.want_template => ev.template_exist) THEN TRUE
                       ELSE Why("valid_shape_processed", "status 0 / -E value, statistics written", [rc |-> ev.rc, stats |-> ev.stats_exist, panicked |-> ev.panicked])
                  ELSE IF ev.rc \notin {0, 7} /\ ev.rc < 128 /\ ~ev.panicked /\ ~ev.outputs_exist THEN TRUE
                       ELSE Why("invalid_shape_refused", "refused before any output", [rc |-> ev.rc, outputs |-> ev.outputs_exist, panicked |-> ev.panicked])
             \* unreadable or unrecognisable input: non-zero status
             [] ev.kind = "badinput" -> IF ev.rc # 0 THEN TRUE ELSE Why("refused", "non-zero", ev.rc)
        /\ l' = l + 1
Spec == Init /\ [][Next]_l
Accepted == IF TLCGet("stats").diameter - 1 = Len(Rec) THEN TRUE
            ELSE Print(<<"TRACE NOT ACCEPTED: matched", TLCGet("stats").diameter - 1, "of", Len(Rec)>>, FALSE)
================================================================================
