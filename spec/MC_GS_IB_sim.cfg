SPECIFICATION Spec
CONSTANTS Barrel = "IB"
  MaxHbf = 2
  MaxPages = 3
  MaxWords = 8
  Df = 2
  Ver = 7
INVARIANTS NoFalseAlarm Dump

CHECK_DEADLOCK FALSE
