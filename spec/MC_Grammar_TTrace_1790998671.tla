---- MODULE MC_Grammar_TTrace_1790998671 ----
EXTENDS Sequences, MC_Grammar, TLCExt, Toolbox, Naturals, TLC

_expression ==
    LET MC_Grammar_TEExpression == INSTANCE MC_Grammar_TEExpression
    IN MC_Grammar_TEExpression!expression
----

_trace ==
    LET MC_Grammar_TETrace == INSTANCE MC_Grammar_TETrace
    IN MC_Grammar_TETrace!trace
----

_inv ==
    ~(
        TLCGet("level") = Len(_TETrace)
        /\
        errs = (<<[off |-> 0, code |-> "10"]>>)
        /\
        noff = (0)
        /\
        stream = (<<[words |-> <<>>, xpad |-> 0, rdh |-> <<6, 64, 51, 81, 0, 32, 0, 0, 64, 0, 64, 0, 11, 0, 24, 0, 0, 0, 0, 0, 233, 3, 0, 0, 0, 0, 0, 0, 0, 0, 0, 0, 3, 106, 0, 0, 0, 0, 0, 0, 0, 0, 0, 0, 0, 0, 0, 0, 15, 8, 0, 1, 0, 0, 0, 0, 0, 0, 0, 0, 0, 0, 0, 0>>, link |-> 11]>>)
        /\
        g = ((5 :> [n |-> 0, hbf |-> 1, page |-> 0, fsm |-> "IHW", rbc |-> 0, last |-> [bc |-> 0, orbit |-> <<>>, tt |-> 0, has |-> FALSE, internal |-> 0, cont |-> 0], open |-> FALSE, sod |-> TRUE, cdwDone |-> FALSE, dataSeen |-> FALSE, done |-> FALSE, cur |-> 0, poff |-> 0, stop |-> 0, padf |-> FALSE] @@ 11 :> [n |-> 0, hbf |-> 1, page |-> 0, fsm |-> "IHW", rbc |-> 0, last |-> [bc |-> 0, orbit |-> <<>>, tt |-> 0, has |-> FALSE, internal |-> 0, cont |-> 0], open |-> TRUE, sod |-> TRUE, cdwDone |-> FALSE, dataSeen |-> FALSE, done |-> FALSE, cur |-> 1, poff |-> 0, stop |-> 0, padf |-> FALSE]))
        /\
        chk = ((5 :> [fsm |-> "IHW", firstVer |-> 256, tdh |-> [bc |-> 0, orbit |-> <<>>, tt |-> 0, has |-> FALSE, internal |-> 0, cont |-> 0], cdw |-> [has |-> FALSE, user |-> <<>>, idx |-> 0], run |-> [n |-> 0, exp |-> 0, incr |-> 1, hasLast |-> FALSE, lstop |-> 0, lorbit |-> <<>>, ltrig |-> <<>>, lfee |-> 0], lanes |-> 0, prev |-> [bc |-> 0, orbit |-> <<>>, tt |-> 0, has |-> FALSE, internal |-> 0, cont |-> 0], pint |-> [bc |-> 0, has |-> FALSE], period |-> 70000] @@ 11 :> [fsm |-> "IHW", firstVer |-> 6, tdh |-> [bc |-> 0, orbit |-> <<>>, tt |-> 0, has |-> FALSE, internal |-> 0, cont |-> 0], cdw |-> [has |-> FALSE, user |-> <<>>, idx |-> 0], run |-> [n |-> 1, exp |-> 1, incr |-> 1, hasLast |-> TRUE, lstop |-> 0, lorbit |-> <<233, 3, 0, 0>>, ltrig |-> <<3, 106, 0, 0>>, lfee |-> 20787], lanes |-> 0, prev |-> [bc |-> 0, orbit |-> <<>>, tt |-> 0, has |-> FALSE, internal |-> 0, cont |-> 0], pint |-> [bc |-> 0, has |-> FALSE], period |-> 70000]))
        /\
        fault = ([kind |-> "none", off |-> 0, fam |-> "", pending |-> FALSE])
    )
----

_init ==
    /\ g = _TETrace[1].g
    /\ chk = _TETrace[1].chk
    /\ errs = _TETrace[1].errs
    /\ stream = _TETrace[1].stream
    /\ fault = _TETrace[1].fault
    /\ noff = _TETrace[1].noff
----

_next ==
    /\ \E i,j \in DOMAIN _TETrace:
        /\ \/ /\ j = i + 1
              /\ i = TLCGet("level")
        /\ g  = _TETrace[i].g
        /\ g' = _TETrace[j].g
        /\ chk  = _TETrace[i].chk
        /\ chk' = _TETrace[j].chk
        /\ errs  = _TETrace[i].errs
        /\ errs' = _TETrace[j].errs
        /\ stream  = _TETrace[i].stream
        /\ stream' = _TETrace[j].stream
        /\ fault  = _TETrace[i].fault
        /\ fault' = _TETrace[j].fault
        /\ noff  = _TETrace[i].noff
        /\ noff' = _TETrace[j].noff

\* Uncomment the ASSUME below to write the states of the error trace
\* to the given file in Json format. Note that you can pass any tuple
\* to `JsonSerialize`. For example, a sub-sequence of _TETrace.
    \* ASSUME
    \*     LET J == INSTANCE Json
    \*         IN J!JsonSerialize("MC_Grammar_TTrace_1790998671.json", _TETrace)

=============================================================================

 Note that you can extract this module `MC_Grammar_TEExpression`
  to a dedicated file to reuse `expression` (the module in the 
  dedicated `MC_Grammar_TEExpression.tla` file takes precedence 
  over the module `MC_Grammar_TEExpression` below).

---- MODULE MC_Grammar_TEExpression ----
EXTENDS Sequences, MC_Grammar, TLCExt, Toolbox, Naturals, TLC

expression == 
    [
        \* To hide variables of the `MC_Grammar` spec from the error trace,
        \* remove the variables below.  The trace will be written in the order
        \* of the fields of this record.
        g |-> g
        ,chk |-> chk
        ,errs |-> errs
        ,stream |-> stream
        ,fault |-> fault
        ,noff |-> noff
        
        \* Put additional constant-, state-, and action-level expressions here:
        \* ,_stateNumber |-> _TEPosition
        \* ,_gUnchanged |-> g = g'
        
        \* Format the `g` variable as Json value.
        \* ,_gJson |->
        \*     LET J == INSTANCE Json
        \*     IN J!ToJson(g)
        
        \* Lastly, you may build expressions over arbitrary sets of states by
        \* leveraging the _TETrace operator.  For example, this is how to
        \* count the number of times a spec variable changed up to the current
        \* state in the trace.
        \* ,_gModCount |->
        \*     LET F[s \in DOMAIN _TETrace] ==
        \*         IF s = 1 THEN 0
        \*         ELSE IF _TETrace[s].g # _TETrace[s-1].g
        \*             THEN 1 + F[s-1] ELSE F[s-1]
        \*     IN F[_TEPosition - 1]
    ]

=============================================================================



Parsing and semantic processing can take forever if the trace below is long.
 In this case, it is advised to uncomment the module below to deserialize the
 trace from a generated binary file.

\*
\*---- MODULE MC_Grammar_TETrace ----
\*EXTENDS IOUtils, MC_Grammar, TLC
\*
\*trace == IODeserialize("MC_Grammar_TTrace_1790998671.bin", TRUE)
\*
\*=============================================================================
\*

---- MODULE MC_Grammar_TETrace ----
EXTENDS MC_Grammar, TLC

trace == 
    <<
    ([errs |-> <<>>,noff |-> 0,stream |-> <<>>,g |-> (5 :> [n |-> 0, hbf |-> 1, page |-> 0, fsm |-> "IHW", rbc |-> 0, last |-> [bc |-> 0, orbit |-> <<>>, tt |-> 0, has |-> FALSE, internal |-> 0, cont |-> 0], open |-> FALSE, sod |-> TRUE, cdwDone |-> FALSE, dataSeen |-> FALSE, done |-> FALSE, cur |-> 0, poff |-> 0, stop |-> 0, padf |-> FALSE] @@ 11 :> [n |-> 0, hbf |-> 1, page |-> 0, fsm |-> "IHW", rbc |-> 0, last |-> [bc |-> 0, orbit |-> <<>>, tt |-> 0, has |-> FALSE, internal |-> 0, cont |-> 0], open |-> FALSE, sod |-> TRUE, cdwDone |-> FALSE, dataSeen |-> FALSE, done |-> FALSE, cur |-> 0, poff |-> 0, stop |-> 0, padf |-> FALSE]),chk |-> (5 :> [fsm |-> "IHW", firstVer |-> 256, tdh |-> [bc |-> 0, orbit |-> <<>>, tt |-> 0, has |-> FALSE, internal |-> 0, cont |-> 0], cdw |-> [has |-> FALSE, user |-> <<>>, idx |-> 0], run |-> [n |-> 0, exp |-> 0, incr |-> 1, hasLast |-> FALSE, lstop |-> 0, lorbit |-> <<>>, ltrig |-> <<>>, lfee |-> 0], lanes |-> 0, prev |-> [bc |-> 0, orbit |-> <<>>, tt |-> 0, has |-> FALSE, internal |-> 0, cont |-> 0], pint |-> [bc |-> 0, has |-> FALSE], period |-> 70000] @@ 11 :> [fsm |-> "IHW", firstVer |-> 256, tdh |-> [bc |-> 0, orbit |-> <<>>, tt |-> 0, has |-> FALSE, internal |-> 0, cont |-> 0], cdw |-> [has |-> FALSE, user |-> <<>>, idx |-> 0], run |-> [n |-> 0, exp |-> 0, incr |-> 1, hasLast |-> FALSE, lstop |-> 0, lorbit |-> <<>>, ltrig |-> <<>>, lfee |-> 0], lanes |-> 0, prev |-> [bc |-> 0, orbit |-> <<>>, tt |-> 0, has |-> FALSE, internal |-> 0, cont |-> 0], pint |-> [bc |-> 0, has |-> FALSE], period |-> 70000]),fault |-> [kind |-> "none", off |-> 0, fam |-> "", pending |-> FALSE]]),
    ([errs |-> <<[off |-> 0, code |-> "10"]>>,noff |-> 0,stream |-> <<[words |-> <<>>, xpad |-> 0, rdh |-> <<6, 64, 51, 81, 0, 32, 0, 0, 64, 0, 64, 0, 11, 0, 24, 0, 0, 0, 0, 0, 233, 3, 0, 0, 0, 0, 0, 0, 0, 0, 0, 0, 3, 106, 0, 0, 0, 0, 0, 0, 0, 0, 0, 0, 0, 0, 0, 0, 15, 8, 0, 1, 0, 0, 0, 0, 0, 0, 0, 0, 0, 0, 0, 0>>, link |-> 11]>>,g |-> (5 :> [n |-> 0, hbf |-> 1, page |-> 0, fsm |-> "IHW", rbc |-> 0, last |-> [bc |-> 0, orbit |-> <<>>, tt |-> 0, has |-> FALSE, internal |-> 0, cont |-> 0], open |-> FALSE, sod |-> TRUE, cdwDone |-> FALSE, dataSeen |-> FALSE, done |-> FALSE, cur |-> 0, poff |-> 0, stop |-> 0, padf |-> FALSE] @@ 11 :> [n |-> 0, hbf |-> 1, page |-> 0, fsm |-> "IHW", rbc |-> 0, last |-> [bc |-> 0, orbit |-> <<>>, tt |-> 0, has |-> FALSE, internal |-> 0, cont |-> 0], open |-> TRUE, sod |-> TRUE, cdwDone |-> FALSE, dataSeen |-> FALSE, done |-> FALSE, cur |-> 1, poff |-> 0, stop |-> 0, padf |-> FALSE]),chk |-> (5 :> [fsm |-> "IHW", firstVer |-> 256, tdh |-> [bc |-> 0, orbit |-> <<>>, tt |-> 0, has |-> FALSE, internal |-> 0, cont |-> 0], cdw |-> [has |-> FALSE, user |-> <<>>, idx |-> 0], run |-> [n |-> 0, exp |-> 0, incr |-> 1, hasLast |-> FALSE, lstop |-> 0, lorbit |-> <<>>, ltrig |-> <<>>, lfee |-> 0], lanes |-> 0, prev |-> [bc |-> 0, orbit |-> <<>>, tt |-> 0, has |-> FALSE, internal |-> 0, cont |-> 0], pint |-> [bc |-> 0, has |-> FALSE], period |-> 70000] @@ 11 :> [fsm |-> "IHW", firstVer |-> 6, tdh |-> [bc |-> 0, orbit |-> <<>>, tt |-> 0, has |-> FALSE, internal |-> 0, cont |-> 0], cdw |-> [has |-> FALSE, user |-> <<>>, idx |-> 0], run |-> [n |-> 1, exp |-> 1, incr |-> 1, hasLast |-> TRUE, lstop |-> 0, lorbit |-> <<233, 3, 0, 0>>, ltrig |-> <<3, 106, 0, 0>>, lfee |-> 20787], lanes |-> 0, prev |-> [bc |-> 0, orbit |-> <<>>, tt |-> 0, has |-> FALSE, internal |-> 0, cont |-> 0], pint |-> [bc |-> 0, has |-> FALSE], period |-> 70000]),fault |-> [kind |-> "none", off |-> 0, fam |-> "", pending |-> FALSE]])
    >>
----


=============================================================================

---- CONFIG MC_Grammar_TTrace_1790998671 ----
CONSTANTS
    Links = { 5 , 11 }
    MaxHbf = 2
    MaxPages = 3
    MaxWords = 6
    Df = 0
    Ver = 6
    Running = TRUE
    Its = TRUE
    Faults = FALSE
    Ob = TRUE

INVARIANT
    _inv

CHECK_DEADLOCK
    \* CHECK_DEADLOCK off because of PROPERTY or INVARIANT above.
    FALSE

INIT
    _init

NEXT
    _next

CONSTANT
    _TETrace <- _trace

ALIAS
    _expression
=============================================================================
\* Generated on Sat Oct 03 03:37:53 UTC 2026