SPECIFICATION Spec
CONSTANTS Lens = {99, 100, 101, 200, 201, 300}
  Sizes = {80}
  Pkts <- BatchPkts
  Filters <- BatchFilters
  CutMode = "tail"
INVARIANTS ChainExact PrefixKept Emit
CHECK_DEADLOCK FALSE
