------------------------------- MODULE GrammarF ------------------------------
(* The producer: protocol-conforming ITS streams (targets none / ITS, not the   *)
(* ALPIDE content: see GrammarStave), composed with the per-link checker, and   *)
(* - when Faults = TRUE - the FAULT CATALOGUE: at most one documented rule is   *)
(* broken per behaviour, by the same action emitting a corrupted item.          *)
(*                                                                              *)
(* The producer remembers only grammar state; the checker consumes RDHs and     *)
(* words as they are produced; the emitted stream is a history variable hidden  *)
(* by the VIEW.  Grammar.tla is this module with Faults = FALSE.                *)
(*                                                                              *)
(* Catalogue (rule -> error family expected AT the offending RDH / word):       *)
(*  RDH sanity (E10): header id, header size, FEE layer 7 / stave 48 / reserved *)
(*    bits, priority, system id (ITS targets), RDH0/1/2/3 reserved, BC 0xdec    *)
(*    and 0xF00, stop bit 2, trigger 0 and spare trigger bit, detector field    *)
(*    bits 12 and 23, dw 2                                                      *)
(*  RDH running (E11): page skipped, page repeated, orbit / trigger / FEE       *)
(*    changed on page > 0, orbit unchanged after a stop                         *)
(*  state-dependent, located at the first word of the packet: IHW on a page     *)
(*    with stop bit (E12), DDW0 without stop bit (E110), DDW0 on page 0 (E111)  *)
(*  words: IHW/TDH/TDT/DDW0 id (E30/E40/E99x by state) and reserved bits, TDH   *)
(*    without trigger, DDW0 index; first TDH: continuation (E42), orbit (E444), *)
(*    bc (E445), trigger type (E44) vs RDH; next TDH: bc decreasing (E440);     *)
(*    continuation TDH: continuation 0 (E41), bc (E441), orbit (E442), trigger  *)
(*    type (E443); CDW user field changed with index != 0 (E81); data word id   *)
(*    invalid (E70), lane inactive (E72 inner / E71 outer), outer input 7 (E73),*)
(*    a CDW / IHW / DDW0 identifier in place of a data word (E70 / E991)        *)
(*  payload: more than 15 bytes of 0xFF padding (code-less payload error at the *)
(*    RDH; the protocol state is reset)                                         *)
EXTENDS ItsChecker, Mk, TLC

CONSTANTS Links, MaxHbf, MaxPages, MaxWords, Df, Ver, Running, Its,
          Faults,      \* BOOLEAN: fault actions enabled
          Ob           \* BOOLEAN: outer-barrel data words (layer 5) instead of inner-barrel ones (layer 1)
VARIABLES g, chk, stream, errs, fault, noff
vars == << g, chk, stream, errs, fault, noff >>

FeeOf(l) == IF Ob THEN 5 * 4096 + 256 * (l % 2) + 30 + l ELSE 4096 + 256 * (l % 3) + 7 + l          \* distinct staves
LanesOf(l) == IF Ob THEN 1 + 2 + 256 ELSE 7                      \* OB: lanes 0, 1, 8 active; IB: lanes 0, 1, 2
LaneIds == IF Ob THEN {64, 73} ELSE {32, 34}                     \* 0x40 (lane 0, input 0), 0x49 (lane 8, input 1) / lanes 0, 2
InactiveId == IF Ob THEN 66 ELSE 37                              \* valid id, lane not active (OB lane 2 / IB lane 5)
BcDom == {0, 3563}                                 \* includes the accepting boundary 0xdeb
TtRdh(h) == IF h = 1 THEN 27139 ELSE 24595        \* 0x6A03, 0x6013
OrbitOf(h) == 1000 + h
Cfg == [running |-> Running, its |-> Its]
PayLen(n, xpad) == (IF Df = 0 THEN 16 * n ELSE 10 * n + ((16 - ((10 * n) % 16)) % 16)) + xpad

RunningFams == {"11", "12", "110", "111", "41", "42", "440", "441", "442", "443", "444", "445", "44", "81", "71", "72", "73"}
NoFault == [kind |-> "none", off |-> 0, fam |-> "", pending |-> FALSE]

GInit == [hbf |-> 1, page |-> 0, fsm |-> "IHW", n |-> 0, rbc |-> 0, last |-> NoTdh, open |-> FALSE, sod |-> TRUE,
          cdwDone |-> FALSE, cu |-> 0, dataSeen |-> FALSE, done |-> FALSE, cur |-> 0, poff |-> 0, stop |-> 0, padf |-> FALSE]
Init == /\ g = [l \in Links |-> GInit] /\ chk = [l \in Links |-> LinkInit] /\ stream = << >> /\ errs = << >>
        /\ fault = NoFault /\ noff = 0

RdhOf(l, page, stop, bc) ==
   MkRdh([ver |-> Ver, fee |-> FeeOf(l), sys |-> 32, size |-> 64, link |-> l, pkt |-> 0, bc |-> bc, orbit |-> OrbitOf(g[l].hbf),
          df |-> Df, tt |-> TtRdh(g[l].hbf), page |-> page, stop |-> stop, det |-> 2048 + 16777216 + 15])     \* detector-field bits 11, 24 and the lane status bits: all legal
CurRdh(l) == stream[g[l].cur].rdh            \* the bytes as emitted (possibly corrupted): what the checker sees

\* ---------------------------------------------------------------- RDH fault catalogue
\* at: "rdh" = reported at the RDH's offset when it is read; "word" = reported at the first word of the packet (pending until then)
RdhFaultKinds ==
  { [kind |-> "rdh_header_id",      fam |-> "10",  at |-> "rdh"],
    [kind |-> "rdh_header_size",    fam |-> "10",  at |-> "rdh"],
    [kind |-> "rdh_fee_layer7",     fam |-> "10",  at |-> "rdh"],
    [kind |-> "rdh_fee_stave48",    fam |-> "10",  at |-> "rdh"],
    [kind |-> "rdh_fee_reserved",   fam |-> "10",  at |-> "rdh"],
    [kind |-> "rdh_priority",       fam |-> "10",  at |-> "rdh"],
    [kind |-> "rdh_sysid",          fam |-> "10",  at |-> "rdh"],
    [kind |-> "rdh_rdh0_reserved",  fam |-> "10",  at |-> "rdh"],
    [kind |-> "rdh_bc_dec",         fam |-> "10",  at |-> "rdh"],
    [kind |-> "rdh_bc_f00",         fam |-> "10",  at |-> "rdh"],
    [kind |-> "rdh_rdh1_reserved",  fam |-> "10",  at |-> "rdh"],
    [kind |-> "rdh_stop2",          fam |-> "10",  at |-> "rdh"],
    [kind |-> "rdh_trigger_zero",   fam |-> "10",  at |-> "rdh"],
    [kind |-> "rdh_trigger_spare",  fam |-> "10",  at |-> "rdh"],
    [kind |-> "rdh_rdh2_reserved",  fam |-> "10",  at |-> "rdh"],
    [kind |-> "rdh_detfield12",     fam |-> "10",  at |-> "rdh"],
    [kind |-> "rdh_detfield23",     fam |-> "10",  at |-> "rdh"],
    [kind |-> "rdh_rdh3_reserved",  fam |-> "10",  at |-> "rdh"],
    [kind |-> "rdh_dw2",            fam |-> "10",  at |-> "rdh"],
    [kind |-> "rdh_page_skip",      fam |-> "11",  at |-> "rdh"],
    [kind |-> "rdh_page_repeat",    fam |-> "11",  at |-> "rdh"],
    [kind |-> "rdh_orbit_change",   fam |-> "11",  at |-> "rdh"],
    [kind |-> "rdh_trigger_change", fam |-> "11",  at |-> "rdh"],
    [kind |-> "rdh_fee_change",     fam |-> "11",  at |-> "rdh"],
    [kind |-> "rdh_orbit_same_after_stop", fam |-> "11", at |-> "rdh"],
    [kind |-> "rdh_stop1_on_ihw_page",  fam |-> "12",  at |-> "word"],
    [kind |-> "rdh_stop0_on_ddw0_page", fam |-> "110", at |-> "word"],
    [kind |-> "rdh_page0_on_ddw0_page", fam |-> "111", at |-> "word"] }

Set(r, i, v) == [r EXCEPT ![i + 1] = v]          \* byte i (0-based) := v
ApplyRdh(kind, r, l) ==
   CASE kind = "rdh_header_id"     -> Set(r, 0, IF Ver = 7 THEN 6 ELSE 7)
     [] kind = "rdh_header_size"   -> Set(r, 1, 65)
     [] kind = "rdh_fee_layer7"    -> Set(r, 3, 112 + (B(r, 3) % 16))
     [] kind = "rdh_fee_stave48"   -> Set(r, 2, 48)
     [] kind = "rdh_fee_reserved"  -> Set(r, 2, B(r, 2) + 64)
     [] kind = "rdh_priority"      -> Set(r, 4, 1)
     [] kind = "rdh_sysid"         -> Set(r, 5, 33)
     [] kind = "rdh_rdh0_reserved" -> Set(r, 6, 1)
     [] kind = "rdh_bc_dec"        -> Set(Set(r, 16, 236), 17, 13)            \* 0xDEC = BC_MAX + 1
     [] kind = "rdh_bc_f00"        -> Set(r, 17, 15)
     [] kind = "rdh_rdh1_reserved" -> Set(r, 18, 1)
     [] kind = "rdh_stop2"         -> Set(r, 38, 2)
     [] kind = "rdh_trigger_zero"  -> Set(Set(Set(Set(r, 32, 0), 33, 0), 34, 0), 35, 0)
     [] kind = "rdh_trigger_spare" -> Set(r, 34, 1)
     [] kind = "rdh_rdh2_reserved" -> Set(r, 39, 1)
     [] kind = "rdh_detfield12"    -> Set(r, 49, B(r, 49) + 16)
     [] kind = "rdh_detfield23"    -> Set(r, 50, 128)
     [] kind = "rdh_rdh3_reserved" -> Set(r, 54, 1)
     [] kind = "rdh_dw2"           -> Set(r, 15, 32 + (B(r, 15) % 16))
     [] kind = "rdh_page_skip"     -> Set(r, 37, 1)
     [] kind = "rdh_page_repeat"   -> Set(r, 36, B(r, 36) - 1)
     [] kind = "rdh_orbit_change"  -> Set(r, 23, 1)
     [] kind = "rdh_trigger_change" -> Set(r, 32, IF B(r, 32) % 4 = 3 THEN B(r, 32) - 2 ELSE B(r, 32) + 2)     \* HB bit toggled: still a legal type
     [] kind = "rdh_fee_change"    -> Set(r, 2, B(r, 2) + 1)
     [] kind = "rdh_orbit_same_after_stop" -> Set(r, 20, (OrbitOf(g[l].hbf - 1)) % 256)
     [] kind = "rdh_stop1_on_ihw_page"  -> Set(r, 38, 1)
     [] kind = "rdh_stop0_on_ddw0_page" -> Set(r, 38, 0)
     [] kind = "rdh_page0_on_ddw0_page" -> Set(Set(r, 36, 0), 37, 0)

\* where a fault can be applied so that exactly the named rule is the one broken there
RdhFaultApplies(f, l, page, stop) ==
   CASE f.kind = "rdh_sysid" -> Its
     [] f.kind = "rdh_header_id" -> chk[l].firstVer # 256          \* the link's first header defines the reference version
     [] f.kind \in {"rdh_page_repeat", "rdh_orbit_change", "rdh_trigger_change", "rdh_fee_change"} -> page > 0
     [] f.kind = "rdh_orbit_same_after_stop" -> page = 0 /\ g[l].hbf > 1
     [] f.kind = "rdh_stop1_on_ihw_page"  -> Its /\ stop = 0 /\ g[l].fsm \in {"IHW", "DONE", "NODATA"}      \* the first word will be an IHW (not a continuation IHW)
     [] f.kind \in {"rdh_stop0_on_ddw0_page", "rdh_page0_on_ddw0_page"} -> Its /\ stop = 1
     [] f.kind = "rdh_stop2" -> stop = 0
     [] OTHER -> TRUE

\* ---- a new packet: the RDH is checked when it is produced ----
OpenPacketWith(l, stop, bc, g1, rdh, flt, padf) ==
   LET res == CheckPacket(chk[l], noff, rdh, << >>, Cfg)
   IN /\ stream' = Append(stream, [link |-> l, rdh |-> rdh, words |-> << >>, xpad |-> IF padf THEN 16 ELSE 0])
      /\ chk' = [chk EXCEPT ![l] = res.st]
      /\ errs' = errs \o res.errs
      /\ fault' = flt
      /\ g' = [g EXCEPT ![l] = [g1 EXCEPT !.cur = Len(stream) + 1, !.open = TRUE, !.sod = TRUE, !.n = 0, !.rbc = bc,
                                          !.dataSeen = FALSE, !.cdwDone = FALSE, !.poff = noff, !.stop = stop, !.padf = padf]]
      /\ UNCHANGED noff
OpenPacket(l, stop, bc, g1) ==
   LET rdh == RdhOf(l, g[l].page, stop, bc) IN
   /\ \A k \in Links : ~g[k].open             \* packets are contiguous in the byte stream: one open packet at a time (links interleave packet-wise)
   /\ \/ OpenPacketWith(l, stop, bc, g1, rdh, fault, FALSE)
      \/ /\ Faults /\ fault.kind = "none" /\ Len(stream) > 0       \* not the very first packet of the input: its RDH0 is the preliminary check (C16)
         /\ \/ \E f \in RdhFaultKinds : /\ RdhFaultApplies(f, l, g[l].page, stop)
                                        /\ OpenPacketWith(l, stop, bc, g1, ApplyRdh(f.kind, rdh, l),
                                                          [kind |-> f.kind, off |-> IF f.at = "rdh" THEN noff ELSE noff + 64, fam |-> f.fam, pending |-> f.at = "word"], FALSE)
            \/ /\ Its      \* this packet's payload will end in more than 15 bytes of 0xFF
               /\ OpenPacketWith(l, stop, bc, g1, rdh, [kind |-> "pad_over_15", off |-> noff, fam |-> "PAYLOAD", pending |-> TRUE], TRUE)

OpenPage(l) == /\ ~g[l].done /\ ~g[l].open /\ g[l].page < MaxPages
               /\ \E bc \in BcDom : (g[l].page > 0 => bc = g[l].rbc) /\ OpenPacket(l, 0, bc, g[l])

\* ---------------------------------------------------------------- word fault catalogue
WOff(l) == WordOffset(g[l].poff, Df, g[l].n)
IdFam(s) == IF s = "NODATA" THEN "990" ELSE "992"
WordFaults(l, w) ==
   LET id == Id(w) s == g[l].fsm  ck == chk[l] IN
   (IF id = ID_IHW THEN {[kind |-> "ihw_id", fam |-> IF s \in {"IHW", "c_IHW"} THEN "30" ELSE IdFam(s), w |-> [w EXCEPT ![10] = 225]],
                         [kind |-> "ihw_reserved", fam |-> "30", w |-> [w EXCEPT ![6] = 1]],
                         [kind |-> "ihw_reserved_bit28", fam |-> "30", w |-> [w EXCEPT ![4] = @ + 16]]} ELSE {})
   \cup (IF id = ID_TDH THEN {[kind |-> "tdh_id", fam |-> IF s \in {"TDH", "c_TDH"} THEN "40" ELSE IdFam(s), w |-> [w EXCEPT ![10] = 233]],
                              [kind |-> "tdh_reserved", fam |-> "40", w |-> [w EXCEPT ![9] = 1]],
                              [kind |-> "tdh_reserved_bit15", fam |-> "40", w |-> [w EXCEPT ![2] = @ + 128]],
                              [kind |-> "tdh_no_trigger", fam |-> "40", w |-> [w EXCEPT ![1] = 0, ![2] = (w[2] \div 32) * 32]]} ELSE {})
   \cup (IF id = ID_TDH /\ s = "TDH" THEN {[kind |-> "tdh_cont_after_ihw", fam |-> "42", w |-> [w EXCEPT ![2] = w[2] + 64]],
                                            [kind |-> "tdh_orbit_ne_rdh", fam |-> "444", w |-> [w EXCEPT ![8] = 9]]} ELSE {})
   \cup (IF id = ID_TDH /\ s = "TDH" /\ g[l].page = 0      \* the first TDH of an HBF carries the RDH's bc and trigger type
           THEN {[kind |-> "tdh_bc_ne_rdh", fam |-> "445", w |-> [w EXCEPT ![3] = (w[3] + 1) % 256]],
                 [kind |-> "tdh_tt_ne_rdh", fam |-> "44", w |-> [w EXCEPT ![1] = IF (w[1] \div 4) % 2 = 1 THEN w[1] - 4 ELSE w[1] + 4]]} ELSE {})
   \cup (IF id = ID_TDH /\ s \in {"DONE", "NODATA"} /\ ck.tdh.has /\ TdhBc(w) > 0 /\ ck.tdh.bc > 0
           THEN {[kind |-> "tdh_bc_decreasing", fam |-> "440", w |-> [w EXCEPT ![3] = (ck.tdh.bc - 1) % 256, ![4] = (ck.tdh.bc - 1) \div 256]]} ELSE {})
   \cup (IF id = ID_TDH /\ s = "c_TDH" THEN {[kind |-> "ctdh_cont0", fam |-> "41", w |-> [w EXCEPT ![2] = w[2] - 64]],
                                              [kind |-> "ctdh_bc", fam |-> "441", w |-> [w EXCEPT ![3] = (w[3] + 1) % 256]],
                                              [kind |-> "ctdh_orbit", fam |-> "442", w |-> [w EXCEPT ![8] = 9]],
                                              [kind |-> "ctdh_tt", fam |-> "443", w |-> [w EXCEPT ![1] = IF (w[1] \div 4) % 2 = 1 THEN w[1] - 4 ELSE w[1] + 4]]} ELSE {})
   \cup (IF id = ID_TDT THEN {[kind |-> "tdt_id", fam |-> "991", w |-> [w EXCEPT ![10] = 241]],
                              [kind |-> "tdt_reserved", fam |-> "50", w |-> [w EXCEPT ![8] = 1]],
                              [kind |-> "tdt_reserved_bit66", fam |-> "50", w |-> [w EXCEPT ![9] = @ + 4]]} ELSE {})
   \cup (IF id = ID_DDW0 THEN {[kind |-> "ddw0_id", fam |-> IdFam(s), w |-> [w EXCEPT ![10] = 229]],
                               [kind |-> "ddw0_index", fam |-> "60", w |-> [w EXCEPT ![9] = 16]],
                               [kind |-> "ddw0_reserved", fam |-> "60", w |-> [w EXCEPT ![8] = 1]]} ELSE {})
   \cup (IF id = ID_CDW /\ ck.cdw.has /\ CdwIdx(w) # 0 /\ ck.cdw.user = CdwUser(w) THEN {[kind |-> "cdw_user_changed_index_not_0", fam |-> "81", w |-> [w EXCEPT ![1] = @ + 1]]} ELSE {})
   \cup (IF IsDataId(id) THEN {[kind |-> "dw_id_invalid", fam |-> "70", w |-> [w EXCEPT ![10] = 41]],
                               [kind |-> "dw_lane_inactive", fam |-> IF Ob THEN "71" ELSE "72", w |-> [w EXCEPT ![10] = InactiveId]]} ELSE {})
   \cup (IF IsDataId(id) /\ Ob THEN {[kind |-> "dw_ob_input7", fam |-> "73", w |-> [w EXCEPT ![10] = 71]]} ELSE {})
   \* identifiers of OTHER word types in place of a data word: a CDW id is only a CDW at the start of the data (later it is an invalid data word id),
   \* a status word id is not legal inside the data section
   \cup (IF IsDataId(id) /\ ~g[l].sod THEN {[kind |-> "dw_id_is_cdw_id", fam |-> "70", w |-> [w EXCEPT ![10] = ID_CDW]]} ELSE {})
   \cup (IF IsDataId(id) THEN {[kind |-> "dw_id_is_ihw_id", fam |-> "991", w |-> [w EXCEPT ![10] = ID_IHW]],
                               [kind |-> "dw_id_is_ddw0_id", fam |-> "991", w |-> [w EXCEPT ![10] = ID_DDW0]]} ELSE {})
   \* and the other way round: a valid DATA word identifier where a status word is due (outside the data section it is not legal: the expected word's
   \* sanity error in single-successor states, the unrecognised-id error in choice states - also when the packet has carried data words before)
   \cup (IF id = ID_IHW THEN {[kind |-> "ihw_id_is_data_id", fam |-> IF s \in {"IHW", "c_IHW"} THEN "30" ELSE IdFam(s), w |-> [w EXCEPT ![10] = IF Ob THEN 67 ELSE 35]]} ELSE {})
   \cup (IF id = ID_TDH THEN {[kind |-> "tdh_id_is_data_id", fam |-> IF s \in {"TDH", "c_TDH"} THEN "40" ELSE IdFam(s), w |-> [w EXCEPT ![10] = IF Ob THEN 67 ELSE 35]]} ELSE {})
   \cup (IF id = ID_DDW0 THEN {[kind |-> "ddw0_id_is_data_id", fam |-> IdFam(s), w |-> [w EXCEPT ![10] = IF Ob THEN 67 ELSE 35]]} ELSE {})

AddWordWith(l, w, wreal, flt) ==
   LET skip == ~Its \/ g[l].padf            \* payload not examined (no target), or skipped because of its padding
       res == IF skip THEN [st |-> chk[l], errs |-> << >>, sod |-> FALSE] ELSE CheckWord(chk[l], CurRdh(l), Running, g[l].sod, wreal, WOff(l))
   IN /\ g[l].open
      /\ chk' = [chk EXCEPT ![l] = res.st]
      /\ errs' = errs \o res.errs
      /\ fault' = IF flt.pending /\ ~g[l].padf /\ flt.kind # "pad_over_15" THEN [flt EXCEPT !.pending = FALSE] ELSE flt
      /\ UNCHANGED noff
      /\ stream' = [stream EXCEPT ![g[l].cur].words = Append(@, wreal)]
      /\ g' = [g EXCEPT ![l].n = @ + 1, ![l].fsm = Succ(g[l].fsm, w), ![l].sod = res.sod,
                        ![l].last = IF Id(w) = ID_TDH THEN TdhRec(w) ELSE @,
                        ![l].cdwDone = IF Id(w) = ID_CDW THEN TRUE ELSE @,
                        ![l].cu = IF Id(w) = ID_CDW THEN w[1] ELSE @,
                        ![l].dataSeen = IF IsDataId(Id(w)) \/ Id(w) = ID_CDW THEN TRUE ELSE @]
AddWord(l, w) == \/ AddWordWith(l, w, w, fault)
                 \/ /\ Faults /\ fault.kind = "none" /\ Its
                    /\ \E f \in WordFaults(l, w) : AddWordWith(l, w, f.w, [kind |-> f.kind, off |-> WOff(l), fam |-> f.fam, pending |-> FALSE])

EmitIhw(l) == g[l].open /\ g[l].n = 0 /\ g[l].stop = 0 /\ g[l].fsm \in {"IHW", "c_IHW", "DONE", "NODATA"} /\ AddWord(l, MkIhw(LanesOf(l)))

EmitTdh(l) ==
  /\ g[l].open /\ g[l].n > 0 /\ (g[l].n + 1 < MaxWords \/ g[l].fsm = "c_TDH") /\ g[l].fsm \in {"TDH", "c_TDH", "DONE", "NODATA"}
  /\ LET h == g[l].hbf  s == g[l].fsm  first == (s = "TDH" /\ g[l].page = 0) IN
     \E nd \in {0, 1}, bc \in BcDom, kind \in {"int", "pht"} :
        /\ (s = "c_TDH") => (nd = 0 /\ bc = g[l].last.bc /\ kind = (IF g[l].last.internal = 1 THEN "int" ELSE "pht"))
        /\ first => (bc = g[l].rbc /\ kind = "int" /\ nd = 0)
        /\ (s # "c_TDH" /\ g[l].last.has) => bc >= g[l].last.bc
        /\ LET tt == IF s = "c_TDH" THEN g[l].last.tt ELSE IF first THEN TtRdh(h) % 4096 ELSE IF kind = "int" THEN 3 ELSE 16
               internal == IF s = "c_TDH" THEN g[l].last.internal ELSE IF kind = "int" THEN 1 ELSE 0
               cont == IF s = "c_TDH" THEN 1 ELSE 0
           IN AddWord(l, MkTdh(tt, internal, nd, cont, bc, OrbitOf(h)))

\* a calibration data word directly after the packet's first TDH - also the continuation TDH of a continuation page
\* (its user field is one of two values, its index 0 or the HBF number: the user field may only change in a word whose index is 0 - g[l].cu is the link's last user field)
EmitCdw(l) == /\ g[l].open /\ g[l].n + 1 < MaxWords /\ g[l].fsm \in {"DATA", "c_DATA"} /\ ~g[l].dataSeen /\ ~g[l].cdwDone
              /\ \E u \in {9, 10}, idx \in {0, g[l].hbf} :
                    /\ (g[l].cu # 0 /\ g[l].cu # u) => idx = 0
                    /\ AddWord(l, MkCdw(u, idx))
EmitData(l) == g[l].open /\ g[l].n + 1 < MaxWords /\ g[l].fsm \in {"DATA", "c_DATA"} /\ \E id \in LaneIds : AddWord(l, MkData(id, 160 + (id % 32)))
EmitTdt(l) == g[l].open /\ g[l].fsm \in {"DATA", "c_DATA"}
              /\ \E d \in {0, 1} : (d = 0 => g[l].page + 1 < MaxPages) /\ AddWord(l, MkTdt(d))

\* closing a packet whose payload carries the padding fault: the whole payload is reported once at the RDH and the protocol state is reset
ClosePad(l) == IF g[l].padf THEN /\ chk' = [chk EXCEPT ![l].fsm = InitState]
                                 /\ errs' = errs \o E(g[l].poff, "PAYLOAD")
                                 /\ fault' = [fault EXCEPT !.pending = FALSE]
               ELSE UNCHANGED << chk, errs, fault >>
\* (a packet that carries a fault located at its first word is not closed empty)
ClosePage(l) == /\ g[l].open /\ g[l].stop = 0 /\ g[l].fsm \in {"DONE", "NODATA", "c_IHW"}
                /\ ~(fault.pending /\ fault.kind # "pad_over_15" /\ g[l].n = 0 /\ fault.off = g[l].poff + 64)
                /\ g' = [g EXCEPT ![l].open = FALSE, ![l].page = @ + 1, ![l].padf = FALSE]
                /\ noff' = noff + 64 + PayLen(g[l].n, stream[g[l].cur].xpad)
                /\ ClosePad(l) /\ UNCHANGED stream

\* the stop page: RDH(stop=1) + DDW0, then the next HBF
StopPage(l) == /\ ~g[l].done /\ ~g[l].open /\ g[l].page >= 1 /\ g[l].fsm \in {"DONE", "NODATA"}
               /\ OpenPacket(l, 1, g[l].rbc, g[l])
EmitDdw0(l) == g[l].open /\ g[l].stop = 1 /\ g[l].n = 0 /\ AddWord(l, MkDdw0)
CloseHbf(l) == /\ g[l].open /\ g[l].stop = 1 /\ g[l].n = 1
               /\ g' = [g EXCEPT ![l].open = FALSE, ![l].page = 0, ![l].hbf = @ + 1, ![l].last = NoTdh, ![l].done = (g[l].hbf = MaxHbf), ![l].padf = FALSE]
               /\ noff' = noff + 64 + PayLen(g[l].n, stream[g[l].cur].xpad)
               /\ ClosePad(l) /\ UNCHANGED stream

Next == \E l \in Links : OpenPage(l) \/ EmitIhw(l) \/ EmitTdh(l) \/ EmitCdw(l) \/ EmitData(l) \/ EmitTdt(l)
                         \/ ClosePage(l) \/ StopPage(l) \/ EmitDdw0(l) \/ CloseHbf(l)
AllDone == \A l \in Links : g[l].done
Spec == Init /\ [][Next]_vars

\* ---------------------------------------------------------------- properties
\* C01 (design level): without a fault the documented checks report nothing on what the grammar produces
NoFalseAlarm == fault.kind = "none" => errs = << >>
Detected == \E i \in 1..Len(errs) : errs[i].off = fault.off /\ errs[i].code = fault.fam
Active(fam) == (fam \in RunningFams => Running) /\ (fam \notin {"10", "11"} => Its)
\* C02 (design level): as soon as the offending item has been consumed the rule's family is reported at its offset, in every
\* mode where the rule is active; a purely running fault is not reported at all by the sanity checks
FaultDetected == (fault.kind # "none" /\ ~fault.pending) =>
                    IF Active(fault.fam) THEN Detected
                    ELSE \A i \in 1..Len(errs) : ~(errs[i].off = fault.off /\ errs[i].code = fault.fam)
AbsView == << [l \in Links |-> [g[l] EXCEPT !.cur = 0]], chk, errs, fault, noff >>
===============================================================================
