------------------------------- MODULE GrammarF ------------------------------
(* Producer of protocol-conforming ITS streams (targets none / ITS, not stave) *)
(* composed with the per-link checker.  The producer remembers only grammar    *)
(* state; the checker consumes RDHs and words as they are produced; the        *)
(* emitted stream is a history variable hidden by the VIEW.                    *)
EXTENDS ItsChecker, Mk, TLC

CONSTANTS Links, MaxHbf, MaxPages, MaxWords, Df, Ver, Running, Its
VARIABLES g, chk, stream, errs, fault, noff
vars == << g, chk, stream, errs, fault, noff >>

FeeOf(l) == 4096 + 256 * (l % 3) + 7 + l          \* layer 1 (inner barrel), distinct staves
LanesOf(l) == 7
LaneIds == {32, 34}
BcDom == {0, 3563}                                 \* includes the accepting boundary 0xdeb
TtRdh(h) == IF h = 1 THEN 27139 ELSE 24595        \* 0x6A03, 0x6013
OrbitOf(h) == 1000 + h
Cfg == [running |-> Running, its |-> Its]
PayLen(n) == IF Df = 0 THEN 16 * n ELSE 10 * n + ((16 - ((10 * n) % 16)) % 16)

GInit == [hbf |-> 1, page |-> 0, fsm |-> "IHW", n |-> 0, rbc |-> 0, last |-> NoTdh, open |-> FALSE, sod |-> TRUE,
          cdwDone |-> FALSE, dataSeen |-> FALSE, done |-> FALSE, cur |-> 0, poff |-> 0]
Init == /\ g = [l \in Links |-> GInit] /\ chk = [l \in Links |-> LinkInit] /\ stream = << >> /\ errs = << >>
        /\ fault = [kind |-> "none", off |-> 0, fam |-> ""] /\ noff = 0

RdhOf(l, page, stop, bc) ==
   MkRdh([ver |-> Ver, fee |-> FeeOf(l), sys |-> 32, size |-> 64, link |-> l, pkt |-> 0, bc |-> bc, orbit |-> OrbitOf(g[l].hbf),
          df |-> Df, tt |-> TtRdh(g[l].hbf), page |-> page, stop |-> stop, det |-> 2048 + 16777216 + 15])     \* detector-field bits 11, 24 and the lane status bits: all legal
CurRdh(l) == stream[g[l].cur].rdh

\* ---- a new packet: the RDH is checked when it is produced ----
RdhFaults == { [kind |-> "rdh_header_size", fam |-> "10", byte |-> 1, val |-> 65],
               [kind |-> "rdh_priority", fam |-> "10", byte |-> 4, val |-> 1],
               [kind |-> "rdh_sysid", fam |-> "10", byte |-> 5, val |-> 33],
               [kind |-> "rdh_bc_dec", fam |-> "10", byte |-> 17, val |-> 15],
               [kind |-> "rdh_stop2", fam |-> "10", byte |-> 38, val |-> 2],
               [kind |-> "rdh_dataformat3", fam |-> "10", byte |-> 24, val |-> 3],
               [kind |-> "rdh_detfield12", fam |-> "10", byte |-> 49, val |-> 16],
               [kind |-> "rdh_page_skip", fam |-> "11", byte |-> 37, val |-> 1],
               [kind |-> "rdh_orbit_change", fam |-> "11", byte |-> 23, val |-> 1] }
RdhFaultApplies(f, page, stop) == CASE f.kind = "rdh_orbit_change" -> page > 0
                                    [] f.kind = "rdh_sysid" -> Its
                                    [] f.kind \in {"rdh_stop2", "rdh_dataformat3"} -> FALSE     \* change how the payload is judged: separate catalogue entries
                                    [] OTHER -> TRUE
OpenPacketWith(l, stop, bc, g1, rdh, flt) ==
   LET res == CheckPacket(chk[l], noff, rdh, << >>, Cfg)
   IN /\ stream' = Append(stream, [link |-> l, rdh |-> rdh, words |-> << >>])
      /\ chk' = [chk EXCEPT ![l] = res.st]
      /\ errs' = errs \o res.errs
      /\ fault' = flt
      /\ g' = [g EXCEPT ![l] = [g1 EXCEPT !.cur = Len(stream) + 1, !.open = TRUE, !.sod = TRUE, !.n = 0, !.rbc = bc,
                                          !.dataSeen = FALSE, !.cdwDone = FALSE, !.poff = noff]]
      /\ UNCHANGED noff
OpenPacket(l, stop, bc, g1) ==
   LET rdh == RdhOf(l, g[l].page, stop, bc) IN
   \/ OpenPacketWith(l, stop, bc, g1, rdh, fault)
   \/ /\ fault.kind = "none" /\ Len(stream) > 0
      /\ \E f \in RdhFaults : RdhFaultApplies(f, g[l].page, stop)
            /\ OpenPacketWith(l, stop, bc, g1, [rdh EXCEPT ![f.byte + 1] = f.val], [kind |-> f.kind, off |-> noff, fam |-> f.fam])

OpenPage(l) == /\ ~g[l].done /\ ~g[l].open /\ g[l].page < MaxPages
               /\ \E bc \in BcDom : (g[l].page > 0 => bc = g[l].rbc) /\ OpenPacket(l, 0, bc, g[l])

WOff(l) == WordOffset(g[l].poff, Df, g[l].n)
WordFaults(l, w) ==
   LET id == Id(w) s == g[l].fsm IN
   (IF id = ID_IHW THEN {[kind |-> "ihw_id", fam |-> IF s \in {"IHW", "c_IHW"} THEN "30" ELSE IF s = "NODATA" THEN "990" ELSE "992", w |-> [w EXCEPT ![10] = 225]], [kind |-> "ihw_reserved", fam |-> "30", w |-> [w EXCEPT ![6] = 1]]} ELSE {})
   \cup (IF id = ID_TDH THEN {[kind |-> "tdh_id", fam |-> IF s \in {"TDH", "c_TDH"} THEN "40" ELSE IF s = "NODATA" THEN "990" ELSE "992", w |-> [w EXCEPT ![10] = 233]],
                              [kind |-> "tdh_reserved", fam |-> "40", w |-> [w EXCEPT ![9] = 1]],
                              [kind |-> "tdh_no_trigger", fam |-> "40", w |-> [w EXCEPT ![1] = 0, ![2] = (w[2] \div 32) * 32]]} ELSE {})
   \cup (IF id = ID_TDH /\ Running /\ s = "TDH" THEN {[kind |-> "tdh_cont_after_ihw", fam |-> "42", w |-> [w EXCEPT ![2] = w[2] + 64]],
                                                       [kind |-> "tdh_orbit_ne_rdh", fam |-> "444", w |-> [w EXCEPT ![8] = 9]]} ELSE {})
   \cup (IF id = ID_TDH /\ Running /\ s = "c_TDH" THEN {[kind |-> "ctdh_cont0", fam |-> "41", w |-> [w EXCEPT ![2] = w[2] - 64]],
                                                         [kind |-> "ctdh_bc", fam |-> "441", w |-> [w EXCEPT ![3] = w[3] + 1]],
                                                         [kind |-> "ctdh_orbit", fam |-> "442", w |-> [w EXCEPT ![8] = 9]]} ELSE {})
   \cup (IF id = ID_TDT THEN {[kind |-> "tdt_id", fam |-> "991", w |-> [w EXCEPT ![10] = 241]], [kind |-> "tdt_reserved", fam |-> "50", w |-> [w EXCEPT ![8] = 1]]} ELSE {})
   \cup (IF id = ID_DDW0 THEN {[kind |-> "ddw0_id", fam |-> IF s = "NODATA" THEN "990" ELSE "992", w |-> [w EXCEPT ![10] = 229]],
                               [kind |-> "ddw0_index", fam |-> "60", w |-> [w EXCEPT ![9] = 16]],
                               [kind |-> "ddw0_reserved", fam |-> "60", w |-> [w EXCEPT ![8] = 1]]} ELSE {})
   \cup (IF IsDataId(id) THEN {[kind |-> "dw_id_invalid", fam |-> "70", w |-> [w EXCEPT ![10] = 41]]} ELSE {})
   \cup (IF IsDataId(id) /\ Running THEN {[kind |-> "dw_lane_inactive", fam |-> "72", w |-> [w EXCEPT ![10] = 37]]} ELSE {})
AddWordWith(l, w, wreal, flt) ==
   LET res == IF Its THEN CheckWord(chk[l], CurRdh(l), Running, g[l].sod, wreal, WOff(l)) ELSE [st |-> chk[l], errs |-> << >>, sod |-> FALSE]
   IN /\ g[l].open
      /\ chk' = [chk EXCEPT ![l] = res.st]
      /\ errs' = errs \o res.errs
      /\ fault' = flt /\ UNCHANGED noff
      /\ stream' = [stream EXCEPT ![g[l].cur].words = Append(@, wreal)]
      /\ g' = [g EXCEPT ![l].n = @ + 1, ![l].fsm = Succ(g[l].fsm, w), ![l].sod = res.sod,
                        ![l].last = IF Id(w) = ID_TDH THEN TdhRec(w) ELSE @,
                        ![l].cdwDone = IF Id(w) = ID_CDW THEN TRUE ELSE @,
                        ![l].dataSeen = IF IsDataId(Id(w)) \/ Id(w) = ID_CDW THEN TRUE ELSE @]
AddWord(l, w) == \/ AddWordWith(l, w, w, fault)
                 \/ /\ fault.kind = "none" /\ Its
                    /\ \E f \in WordFaults(l, w) : AddWordWith(l, w, f.w, [kind |-> f.kind, off |-> WOff(l), fam |-> f.fam])

EmitIhw(l) == g[l].open /\ g[l].n = 0 /\ Stop(CurRdh(l)) = 0 /\ g[l].fsm \in {"IHW", "c_IHW", "DONE", "NODATA"} /\ AddWord(l, MkIhw(LanesOf(l)))

EmitTdh(l) ==
  /\ g[l].open /\ g[l].n > 0 /\ (g[l].n + 1 < MaxWords \/ g[l].fsm = "c_TDH") /\ g[l].fsm \in {"TDH", "c_TDH", "DONE", "NODATA"}
  /\ LET h == g[l].hbf  s == g[l].fsm  first == (s = "TDH" /\ g[l].page = 0) IN
     \E nd \in {0, 1}, bc \in BcDom, kind \in {"int", "pht"} :
        /\ (s = "c_TDH") => (nd = 0 /\ bc = g[l].last.bc /\ kind = (IF g[l].last.internal = 1 THEN "int" ELSE "pht"))
        /\ first => (bc = g[l].rbc /\ kind = "int" /\ nd = 0)
        /\ (s # "c_TDH" /\ g[l].last.has) => bc >= g[l].last.bc
        /\ LET tt == IF s = "c_TDH" THEN g[l].last.tt ELSE IF first THEN TtRdh(h) % 4096 ELSE IF kind = "int" THEN 3 ELSE 16
               internal == IF s = "c_TDH" THEN g[l].last.internal ELSE IF kind = "int" THEN 1 ELSE 0
               cont == IF s = "c_TDH" THEN 1 ELSE 0
           IN AddWord(l, MkTdh(tt, internal, nd, cont, bc, OrbitOf(h)))

EmitCdw(l) == g[l].open /\ g[l].n + 1 < MaxWords /\ g[l].fsm = "DATA" /\ ~g[l].dataSeen /\ ~g[l].cdwDone /\ AddWord(l, MkCdw(9, g[l].hbf))
EmitData(l) == g[l].open /\ g[l].n + 1 < MaxWords /\ g[l].fsm \in {"DATA", "c_DATA"} /\ \E id \in LaneIds : AddWord(l, MkData(id, 160 + (id % 32)))
EmitTdt(l) == g[l].open /\ g[l].fsm \in {"DATA", "c_DATA"}
              /\ \E d \in {0, 1} : (d = 0 => g[l].page + 1 < MaxPages) /\ AddWord(l, MkTdt(d))

ClosePage(l) == /\ g[l].open /\ Stop(CurRdh(l)) = 0 /\ g[l].fsm \in {"DONE", "NODATA", "c_IHW"}
                /\ g' = [g EXCEPT ![l].open = FALSE, ![l].page = @ + 1]
                /\ noff' = noff + 64 + PayLen(g[l].n)
                /\ UNCHANGED << chk, stream, errs, fault >>

\* the stop page: RDH(stop=1) + DDW0, then the next HBF
StopPage(l) == /\ ~g[l].done /\ ~g[l].open /\ g[l].page >= 1 /\ g[l].fsm \in {"DONE", "NODATA"}
               /\ OpenPacket(l, 1, g[l].rbc, g[l])
EmitDdw0(l) == g[l].open /\ Stop(CurRdh(l)) = 1 /\ g[l].n = 0 /\ AddWord(l, MkDdw0)
CloseHbf(l) == /\ g[l].open /\ Stop(CurRdh(l)) = 1 /\ g[l].n = 1
               /\ g' = [g EXCEPT ![l].open = FALSE, ![l].page = 0, ![l].hbf = @ + 1, ![l].last = NoTdh, ![l].done = (g[l].hbf = MaxHbf)]
               /\ noff' = noff + 64 + PayLen(g[l].n)
               /\ UNCHANGED << chk, stream, errs, fault >>

Next == \E l \in Links : OpenPage(l) \/ EmitIhw(l) \/ EmitTdh(l) \/ EmitCdw(l) \/ EmitData(l) \/ EmitTdt(l)
                         \/ ClosePage(l) \/ StopPage(l) \/ EmitDdw0(l) \/ CloseHbf(l)
AllDone == \A l \in Links : g[l].done
Spec == Init /\ [][Next]_vars
NoFalseAlarm == fault.kind = "none" => errs = << >>
Detected == \E i \in 1..Len(errs) : errs[i].off = fault.off /\ errs[i].code = fault.fam
\* the fault must be reported as soon as the faulty item has been consumed (and stay reported)
FaultDetected == fault.kind # "none" => Detected
AbsView == << [l \in Links |-> [g[l] EXCEPT !.cur = 0]], chk, errs, fault, noff >>
===============================================================================
