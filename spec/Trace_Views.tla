------------------------------ MODULE Trace_Views ------------------------------
EXTENDS Views, TLC, Json, IOUtils
Rec == ndJsonDeserialize(IOEnv.TRACE)
VARIABLES l, dead          \* dead: the view of the current run (file, view command) has ended at a payload it could not cut
Init == l = 1 /\ dead = FALSE
\* drop the fields a row of that kind does not print
Norm(row) == IF row.k = "RDH" THEN row
             ELSE IF row.k = "TDH" THEN [k |-> row.k, off |-> row.off, w |-> row.w, a |-> row.a, orbit |-> row.orbit, bc |-> row.bc]
             ELSE [k |-> row.k, off |-> row.off, w |-> row.w, a |-> row.a]
Next == /\ l <= Len(Rec) /\ Rec[l].e = "Pkt"
        /\ LET ev == Rec[l]
               same == l > 1 /\ Rec[l - 1].file = ev.file /\ Rec[l - 1].view = ev.view
               d == same /\ dead
               exp == IF ev.selected /\ ~d THEN PacketRows(ev.off, ev.rdh, ev.payload, ev.withData) ELSE << >>      \* a packet the filter does not select has no rows; nor has any packet after the end of the view
               expn == [i \in 1..Len(exp) |-> Norm(exp[i])]
           IN /\ IF expn = ev.rows THEN TRUE ELSE PrintT("REJECT " \o ToJson([l |-> l, tag |-> "rows", expected |-> expn, observed |-> ev.rows]))
              /\ dead' = (d \/ (ev.selected /\ ViewEnds(ev.payload)))
        /\ l' = l + 1
Spec == Init /\ [][Next]_<< l, dead >>
Accepted == IF TLCGet("stats").diameter - 1 = Len(Rec) THEN TRUE
            ELSE Print(<<"TRACE NOT ACCEPTED: matched", TLCGet("stats").diameter - 1, "of", Len(Rec)>>, FALSE)
================================================================================
