------------------------------ MODULE Trace_Views ------------------------------
EXTENDS Views, TLC, Json, IOUtils
Rec == ndJsonDeserialize(IOEnv.TRACE)
VARIABLE l
Init == l = 1
\* drop the fields a row of that kind does not print
Norm(row) == IF row.k = "RDH" THEN row
             ELSE IF row.k = "TDH" THEN [k |-> row.k, off |-> row.off, w |-> row.w, a |-> row.a, orbit |-> row.orbit, bc |-> row.bc]
             ELSE [k |-> row.k, off |-> row.off, w |-> row.w, a |-> row.a]
Next == /\ l <= Len(Rec) /\ Rec[l].e = "Pkt"
        /\ LET ev == Rec[l]
               exp == IF ev.selected THEN PacketRows(ev.off, ev.rdh, ev.payload, ev.withData) ELSE << >>      \* a packet the filter does not select has no rows
               expn == [i \in 1..Len(exp) |-> Norm(exp[i])]
           IN IF expn = ev.rows THEN TRUE ELSE PrintT("REJECT " \o ToJson([l |-> l, tag |-> "rows", expected |-> expn, observed |-> ev.rows]))
        /\ l' = l + 1
Spec == Init /\ [][Next]_l
Accepted == IF TLCGet("stats").diameter - 1 = Len(Rec) THEN TRUE
            ELSE Print(<<"TRACE NOT ACCEPTED: matched", TLCGet("stats").diameter - 1, "of", Len(Rec)>>, FALSE)
================================================================================
