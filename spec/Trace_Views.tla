------------------------------ MODULE Trace_Views ------------------------------
EXTENDS Views, TLC, Json, IOUtils, Integers
Rec == ndJsonDeserialize(IOEnv.TRACE)
VARIABLES l, dead, gone, n, deadBatch
\* The view of one run (file, view command).  n: packets given to the view so far (the reader hands them over in batches of 100).  A payload that cannot
\* be cut gets its RDH row, a fatal error is reported, the REST OF ITS BATCH is abandoned (deadBatch) and the stop is requested (dead); the view goes on
\* with the next batches until it sees the stop flag - from then on it prints nothing (gone).
Init == l = 1 /\ dead = FALSE /\ gone = FALSE /\ n = 0 /\ deadBatch = -1
\* drop the fields a row of that kind does not print
Norm(row) == IF row.k = "RDH" THEN row
             ELSE IF row.k = "TDH" THEN [k |-> row.k, off |-> row.off, w |-> row.w, a |-> row.a, orbit |-> row.orbit, bc |-> row.bc]
             ELSE [k |-> row.k, off |-> row.off, w |-> row.w, a |-> row.a]
Next == /\ l <= Len(Rec) /\ Rec[l].e = "Pkt"
        /\ LET ev == Rec[l]
               same == l > 1 /\ Rec[l - 1].file = ev.file /\ Rec[l - 1].view = ev.view
               d == same /\ dead
               g == same /\ gone
               n0 == IF same THEN n ELSE 0
               db == IF same THEN deadBatch ELSE -1
               batch == n0 \div 100                                   \* the batch this packet is in, if it is given to the view
               full == IF ev.selected THEN PacketRows(ev.off, ev.rdh, ev.payload, ev.withData) ELSE << >>      \* a packet the filter does not select has no rows
               fulln == [i \in 1..Len(full) |-> Norm(full[i])]
               abandoned == ev.selected /\ db = batch
               ok == IF g \/ abandoned THEN ev.rows = << >> ELSE IF d THEN ev.rows = fulln \/ ev.rows = << >> ELSE ev.rows = fulln
               fatalHere == ev.selected /\ ~g /\ ~abandoned /\ ev.rows # << >> /\ ViewEnds(ev.payload)
           IN /\ IF ok THEN TRUE ELSE PrintT("REJECT " \o ToJson([l |-> l, tag |-> "rows", expected |-> (IF g \/ abandoned THEN << >> ELSE fulln), observed |-> ev.rows]))
              /\ dead' = (d \/ fatalHere)
              /\ deadBatch' = (IF fatalHere THEN batch ELSE db)
              /\ gone' = (g \/ (d /\ ~abandoned /\ ev.selected /\ ev.rows = << >> /\ fulln # << >>))
              /\ n' = (IF ev.selected THEN n0 + 1 ELSE n0)
        /\ l' = l + 1
Spec == Init /\ [][Next]_<< l, dead, gone, n, deadBatch >>
Accepted == IF TLCGet("stats").diameter - 1 = Len(Rec) THEN TRUE
            ELSE Print(<<"TRACE NOT ACCEPTED: matched", TLCGet("stats").diameter - 1, "of", Len(Rec)>>, FALSE)
================================================================================
