SPECIFICATION MCSpec
CONSTANTS ReaderCap = 1
  ValCap0 = 1
  Mode = "view"
  MainKeepsReceiver = FALSE
  Links = {1, 2}
  MaxBatches = 3
  Full = 2
  MaxStops = 2
INVARIANTS TypeOK AllJoined CollectorLast WholeOut NoDeadlock
PROPERTY Terminates
CHECK_DEADLOCK FALSE
