INIT Init
NEXT Next
CONSTANTS Senders = {"a","b","c"}
  Msgs <- MCSmall
INVARIANTS Deterministic
CHECK_DEADLOCK FALSE
