INIT Init
NEXT Next
INVARIANTS Wording Emit
CHECK_DEADLOCK FALSE
