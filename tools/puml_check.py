#!/usr/bin/env python3
"""Cross-check of spec/ItsFsm.tla against doc/ITS_payload_fsm_continuous_mode.puml (the documented state diagram).

The word-successor relation "after word W (under guard g) the next word may be W'" is derived
 (a) from the diagram: edges of the .puml file, choice nodes (after_*) and the composite state's entry point collapsed;
 (b) from the specification: the legal edges TLC dumps for MC_ItsFsm (EDGE lines: state, word class, successor state).
They must be equal up to the two deviations named in DESIGN.md section 3: the diagram's Data node is a data SECTION of zero or
more words (so a TDT may follow a TDH with data directly), and the CDW (accepted wherever a data word is) is not drawn.
usage: puml_check.py <puml file> <edges.ndjson>     exit 0 = consistent, 1 = drift (printed)"""
import json, re, sys

def diagram(path):
    edges = []
    for line in open(path):
        line = line.strip()
        if line.startswith("'") or '->' not in line:
            continue
        m = re.match(r'^(\[\*\]|\w+)\s+-[a-z]*-*>\s+(\[\*\]|\w+)\s*(?::\s*(.*))?$', line)
        if m:
            edges.append((m.group(1), m.group(2), (m.group(3) or '')))
    # "[*] -> IHW" (top level) and "[*] -> c_IHW" (inside Continuation); "DDW0 -> [*]" restarts at IHW
    out = {}
    def guard(lbl):
        g = set()
        if 'no_data == 0' in lbl: g.add('no_data=0')
        if 'no_data == 1' in lbl: g.add('no_data=1')
        if 'packet_done == 1' in lbl: g.add('packet_done=1')
        if 'packet_done == 0' in lbl: g.add('packet_done=0')
        return frozenset(g)
    succ = {}
    for a, b, lbl in edges:
        succ.setdefault(a, []).append((b, guard(lbl)))
    words = {'IHW', 'TDH', 'Data', 'TDT', 'DDW0', 'c_IHW', 'c_TDH', 'c_Data', 'c_TDT'}
    def expand(node, g, seen=()):
        """word nodes reachable from `node` through choice / pseudo nodes, with accumulated guards"""
        if node in words:
            return {(node, g)}
        if node == 'Continuation':
            return {('c_IHW', g)}
        if node == '[*]':
            return {('IHW', g)}
        res = set()
        for b, gg in succ.get(node, []):
            if (node, b) not in seen:
                res |= expand(b, g | gg, seen + ((node, b),))
        return res
    rel = {}
    for w in words:
        for b, gg in succ.get(w, []):
            for (n, g) in expand(b, gg):
                rel.setdefault(w, set()).add((n, g))
    return rel

def spec(path):
    edges = [json.loads(l) for l in open(path)]
    legal = {}
    for e in edges:
        if e['from'] != '-' and e['legal']:
            legal.setdefault(e['from'], []).append(e)
    def node(state, cls):
        if cls == 'IHW': return 'c_IHW' if state == 'c_IHW' else 'IHW'
        if cls.startswith('TDH'): return 'c_TDH' if state == 'c_TDH' else 'TDH'
        if cls.startswith('TDT'): return 'c_TDT' if state == 'c_DATA' else 'TDT'
        if cls in ('DWI', 'DWO'): return 'c_Data' if state == 'c_DATA' else 'Data'
        if cls == 'DDW0': return 'DDW0'
        return None                      # CDW: not drawn in the diagram (named deviation)
    rel = {}
    for s, es in legal.items():
        for e in es:
            w = node(s, e['cls'])
            if w is None:
                continue
            g = set()
            if w == 'TDH': g.add('no_data=1' if e['cls'] in ('TDH10', 'TDH11') else 'no_data=0')
            if w in ('TDT', 'c_TDT'): g.add('packet_done=1' if e['cls'] == 'TDT1' else 'packet_done=0')
            for e2 in legal.get(e['to'], []):
                n = node(e['to'], e2['cls'])
                if n:
                    rel.setdefault(w, set()).add((n, frozenset(g)))
    return rel

def main():
    d, s = diagram(sys.argv[1]), spec(sys.argv[2])
    # named deviation: the data section may be empty
    for w, t in (('TDH', 'TDT'), ('c_TDH', 'c_TDT')):
        g = frozenset({'no_data=0'}) if w == 'TDH' else frozenset()
        d.setdefault(w, set()).add((t, g))
    drift = []
    for w in sorted(set(d) | set(s)):
        a, b = d.get(w, set()), s.get(w, set())
        # guards that the diagram leaves implicit are ignored when the target sets agree per guard-free projection
        pa = {(n, tuple(sorted(g))) for n, g in a}; pb = {(n, tuple(sorted(g))) for n, g in b}
        if pa != pb:
            drift.append((w, sorted(pa - pb), sorted(pb - pa)))
    for w, only_d, only_s in drift:
        print(f'DRIFT after {w}: only in the diagram {only_d}; only in the specification {only_s}')
    print(f'puml_check: {sum(len(v) for v in d.values())} diagram successor pairs, {sum(len(v) for v in s.values())} specification pairs, {len(drift)} differences')
    return 1 if drift else 0

if __name__ == '__main__':
    sys.exit(main())
