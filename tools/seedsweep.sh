#!/bin/bash
# regression over the kept seeds: each seeded change against the check of its own property (development aid; hours of CPU)
# usage: tools/seedsweep.sh [pattern]   -> work/seedsweep.log
cd "$(dirname "$0")/.."
mkdir -p work
for d in seeded/${1:-C*}; do
  id=$(basename $d); prop=${id:0:3}
  [ -f $d/patch.diff ] || continue
  r=$(tools/seedtest.py $d --checks $prop 2>&1 | grep -E "^$prop: rc=" | head -1 | cut -c1-160)
  echo "$id $r" | tee -a work/seedsweep.log
done
