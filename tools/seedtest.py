#!/usr/bin/env python3
"""Development aid: confirm a seeded regression and measure which checks catch it.

  tools/seedtest.py <dir with patch.diff + demo> [--confirm] [--checks C01 C13 ...] [--tier quick]

Creates a scratch worktree of /repo's HEAD under /tmp/st, applies the patch, (with --confirm) runs the repository's
test-suite on it and the demonstration on the patched and on a clean tree, then runs the named checks against the
scratch tree (VERIF_REPO) and prints their verdicts. The worktree and its build output are removed afterwards.
"""
import os, subprocess, sys, shutil, json, glob, time

def sh(cmd, **kw):
    return subprocess.run(cmd, shell=True, capture_output=True, text=True, **kw)

def main():
    a = sys.argv[1:]
    d = os.path.abspath(a[0]); name = os.path.basename(d.rstrip('/'))
    confirm = '--confirm' in a
    tier = a[a.index('--tier') + 1] if '--tier' in a else 'quick'
    checks = []
    if '--checks' in a:
        for x in a[a.index('--checks') + 1:]:
            if x.startswith('--'):
                break
            checks.append(x)
    wt = f'/tmp/st/{name}'
    os.makedirs('/tmp/st', exist_ok=True)
    sh(f'git -C /repo worktree remove --force {wt}')
    r = sh(f'git -C /repo worktree add -q --detach {wt} HEAD')
    if r.returncode:
        print('worktree failed', r.stderr); return 2
    out = {'name': name, 'ran': []}
    try:
        r = sh(f'git -C {wt} apply {d}/patch.diff')
        if r.returncode:       # the tree has moved on (hook / fix: commits) since the seed was made: three-way merge against the blobs the patch names
            r = sh(f'git -C {wt} apply --3way {d}/patch.diff')
            if r.returncode or sh(f'git -C {wt} diff --name-only --diff-filter=U').stdout.strip():
                print('PATCH DOES NOT APPLY', r.stderr); return 2
            sh(f'git -C {wt} reset -q')
        if confirm:
            t0 = time.time()
            r = sh(f'cd {wt} && cargo test --workspace --no-fail-fast --offline 2>&1 | grep -E "^test result"')
            p = sum(int(l.split()[3]) for l in r.stdout.splitlines()); f = sum(int(l.split()[5]) for l in r.stdout.splitlines())
            print(f'suite on patched tree: {p} passed {f} failed ({time.time()-t0:.0f}s)')
            out['suite'] = {'passed': p, 'failed': f}
            demo = next(iter(glob.glob(f'{d}/demo.*')), None)
            if demo:
                runner = 'python3' if demo.endswith('.py') else 'bash'
                r1 = sh(f'{runner} {demo} {wt}', timeout=3600)
                clean = f'/tmp/st/_clean_{name}'      # one clean tree per seed: parallel confirmations must not share it
                sh(f'git -C /repo worktree remove --force {clean}'); sh(f'git -C /repo worktree add -q --detach {clean} HEAD')
                r2 = sh(f'{runner} {demo} {clean}', timeout=3600)
                sh(f'git -C /repo worktree remove --force {clean}')
                print(f'demo: patched rc={r1.returncode} clean rc={r2.returncode}')
                out['demo'] = {'patched_rc': r1.returncode, 'clean_rc': r2.returncode, 'patched_tail': r1.stdout[-400:]}
        env = dict(os.environ, VERIF_REPO=wt)
        for c in checks:
            t0 = time.time()
            r = subprocess.run(['/verif/bin/check', c, '--tier', tier], env=env, capture_output=True, text=True)
            v = [l for l in r.stdout.splitlines() if l.startswith('VIOLATION') or l.startswith('  ')][:4]
            print(f'{c}: rc={r.returncode} ({time.time()-t0:.0f}s)', '; '.join(x.strip()[:230] for x in v[:2]), (r.stderr[-300:] if r.returncode == 2 else ''))
            out['ran'].append({'check': c, 'tier': tier, 'rc': r.returncode, 'first': v[:2]})
    finally:
        sh(f'git -C /repo worktree remove --force {wt}')
        for p in glob.glob(f'/verif/work/*-{__import__("hashlib").sha1(wt.encode()).hexdigest()[:8]}*'):
            shutil.rmtree(p, ignore_errors=True)
        for p in glob.glob(f'/verif/target/cli*-{__import__("hashlib").sha1(wt.encode()).hexdigest()[:8]}'):
            shutil.rmtree(p, ignore_errors=True)
    print('RESULT ' + json.dumps(out))
    return 0

if __name__ == '__main__':
    sys.exit(main())
