#!/usr/bin/env python3
"""next-round prompt for a seeded regression: tools/mkprompt.py C08 e  ->  seeded/_prompts/C08e.txt (from the previous round's prompt + its summary)"""
import json, os, sys, re
prop, rnd = sys.argv[1], sys.argv[2]
prev = chr(ord(rnd) - 1)
base = os.path.join(os.path.dirname(os.path.abspath(__file__)), '..', 'seeded')
t = open(f'{base}/_prompts/{prop}{prev}.txt').read()
meta = f'{base}/{prop}{prev}/meta.json'
summ = json.load(open(meta))['summary'] if os.path.exists(meta) else None
t = t.replace(f'{prop}{prev}', f'{prop}{rnd}')
if summ:
    lines = t.split('\n')
    last = max(i for i, l in enumerate(lines) if l.startswith(' - "'))
    lines.insert(last + 1, ' - ' + json.dumps(summ))
    t = '\n'.join(lines)
    words = {1: 'one earlier change', 2: 'two earlier changes', 3: 'three earlier changes', 4: 'four earlier changes', 5: 'five earlier changes'}
    n = sum(1 for l in t.split('\n') if l.startswith(' - "'))
    t = re.sub(r'IMPORTANT: \w+ earlier changes? for this property', f'IMPORTANT: {words.get(n, str(n) + " earlier changes")} for this property', t)
open(f'{base}/_prompts/{prop}{rnd}.txt', 'w').write(t)
os.makedirs('/tmp/seedprompts', exist_ok=True)
open(f'/tmp/seedprompts/{prop}{rnd}.txt', 'w').write(t)
print(f'{prop}{rnd}: {n if summ else "?"} earlier changes listed')
