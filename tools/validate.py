#!/usr/bin/env python3
"""validate MANIFEST.json and evidence/*.json against the schemas in /root/.vp (development aid)"""
import json, sys, glob, os
import jsonschema
root = os.path.dirname(os.path.dirname(os.path.abspath(__file__)))
ok = True
def check(doc, schema, name):
    global ok
    try:
        jsonschema.validate(json.load(open(doc)), json.load(open(schema)))
        print('ok  ', name)
    except Exception as e:
        ok = False
        print('FAIL', name, str(e)[:300])
check(f'{root}/MANIFEST.json', '/root/.vp/MANIFEST.schema.json', 'MANIFEST.json')
for f in sorted(glob.glob(f'{root}/evidence/*.json')):
    check(f, '/root/.vp/EVIDENCE.schema.json', os.path.basename(f))
m = json.load(open(f'{root}/MANIFEST.json'))
for c in m['checks']:
    ef = f"{root}/{c['evidence_file']}"
    if os.path.exists(ef):
        lv = json.load(open(ef)).get('level')
        if lv != c['level_claimed']['category']:
            ok = False; print('FAIL level mismatch', c['property_id'], lv, c['level_claimed']['category'])
ids = [json.loads(l)['id'] for l in open(f'{root}/properties.jsonl')]
claimed = {c['property_id'] for c in m['checks']}
na = {c['property_id'] for c in m.get('not_applicable', [])}
for i in ids:
    if i not in claimed and i not in na:
        ok = False; print('FAIL property neither claimed nor not_applicable:', i)
sys.exit(0 if ok else 1)
