#!/usr/bin/env python3
"""Shared plumbing for the checks: builds, TLC runs, evidence, violations, known findings."""
import json, os, re, subprocess, sys, time, hashlib, shutil

VERIF = os.environ.get('VERIF_ROOT', '/verif')
REPO = os.environ.get('VERIF_REPO', '/repo')
SPEC = f'{VERIF}/spec'
TARGET = f'{VERIF}/target'
WORK = f'{VERIF}/work'
GUARD = 'fastpasta_verif'
JOBS = int(os.environ.get('VERIF_JOBS', '14'))
# development only: VERIF_REPO=<scratch tree> runs the checks against a scratch copy (e.g. a worktree carrying a seeded change);
# work directories, replays and evidence of such runs are kept apart from those of /repo
SCRATCH = '' if REPO == '/repo' else '-' + hashlib.sha1(REPO.encode()).hexdigest()[:8]
EVIDENCE = f'{VERIF}/evidence' if not SCRATCH else f'{WORK}/evidence{SCRATCH}'
REPLAYS = f'{VERIF}/replays' if not SCRATCH else f'{WORK}/replays{SCRATCH}'


class ToolError(Exception):
    pass


def seed():
    try:
        return int(os.environ.get('VERIF_SEED', '1'))
    except ValueError:
        return 1


def workdir(prop, tier):
    d = f'{WORK}/{prop}{SCRATCH}/{tier}'
    shutil.rmtree(d, ignore_errors=True)
    os.makedirs(d, exist_ok=True)
    return d


# ------------------------------------------------------------------ builds
_env_off = {'CARGO_NET_OFFLINE': 'true'}


def build_cli(hooks=False):
    """release semantics (opt, no debug assertions/overflow checks, panic=abort), LTO off for build time"""
    tdir = f'{TARGET}/cli-hooks' if hooks else f'{TARGET}/cli'
    if REPO != '/repo':        # scratch trees (development only) get their own target directory
        tdir += '-' + hashlib.sha1(REPO.encode()).hexdigest()[:8]
    env = dict(os.environ, **_env_off, CARGO_PROFILE_RELEASE_LTO='false', CARGO_PROFILE_RELEASE_CODEGEN_UNITS='16')
    if hooks:
        env['RUSTFLAGS'] = f'--cfg {GUARD} --check-cfg cfg({GUARD})'
    r = subprocess.run(['cargo', 'build', '--release', '--offline', '--manifest-path', f'{REPO}/Cargo.toml', '-p', 'fastpasta',
                        '--bin', 'fastpasta', '--target-dir', tdir], env=env, capture_output=True, text=True)
    if r.returncode != 0:
        raise ToolError('cargo build (cli) failed:\n' + r.stderr[-3000:])
    return f'{tdir}/release/fastpasta'


def build_harness():
    env = dict(os.environ, **_env_off)
    hdir = f'{VERIF}/harness'
    if REPO != '/repo':
        # scratch trees (development only: seeded changes in a worktree) get their own copy of the harness crate, pointed at that tree
        hdir = f'{WORK}/harness-' + hashlib.sha1(REPO.encode()).hexdigest()[:8]
        os.makedirs(f'{hdir}/.cargo', exist_ok=True)
        for f in ('Cargo.lock', '.cargo/config.toml'):
            shutil.copyfile(f'{VERIF}/harness/{f}', f'{hdir}/{f}')
        shutil.rmtree(f'{hdir}/src', ignore_errors=True)
        shutil.copytree(f'{VERIF}/harness/src', f'{hdir}/src')
        txt = open(f'{VERIF}/harness/Cargo.toml').read().replace('/repo/', REPO.rstrip('/') + '/')
        if not os.path.exists(f'{hdir}/Cargo.toml') or open(f'{hdir}/Cargo.toml').read() != txt:
            open(f'{hdir}/Cargo.toml', 'w').write(txt)
    r = subprocess.run(['cargo', 'build', '--offline'], cwd=hdir, env=env, capture_output=True, text=True)
    if r.returncode != 0:
        raise ToolError('cargo build (harness) failed:\n' + r.stderr[-3000:])
    return f'{hdir}/target/debug/fpverif'


# ------------------------------------------------------------------ TLC
_STATS = re.compile(r'(\d[\d,]*) states generated, (\d[\d,]*) distinct states found')
_SIM = re.compile(r'The number of states generated: (\d[\d,]*)')


def corrupt_trace(module, path):
    """selftest only (VERIF_CORRUPT_TRACE=<trace module>): falsify ONE recorded observation of the trace before it is validated; the check
    that owns the trace must then report a violation - this demonstrates that the specification is bound to what was recorded"""
    ev = [json.loads(l) for l in open(path) if l.strip()]
    done = False
    for i, e in enumerate(ev):
        if module == 'Trace_Link' and e.get('e') == 'Pkt' and 'errs' in e:
            e['errs'].append({'off': e['off'], 'code': '10' if not any(x['code'] == '10' for x in e['errs']) else '11'}); done = True
        elif module == 'Trace_Stave' and e.get('e') == 'Pkt' and 'errs' in e:
            e['errs'].append({'off': e['off'] + 74, 'code': '74'}); done = True          # an invented frame error
        elif module == 'Trace_Order' and e.get('e') == 'End':
            e['shown'] = e['shown'][::-1] if len(e['shown']) > 1 and e['shown'][0] != e['shown'][-1] else e['shown'] + [{'off': 0, 'code': '10'}]; done = True
        elif module == 'Trace_Scanner' and e.get('rows'):
            e['rows'][0]['off'] += 64; done = True
        elif module == 'Trace_Reader' and e.get('e') == 'rdh':
            e['a'] += 64; done = True
        elif module == 'Trace_Pipe2' and e.get('t') in ('A', 'W') and e.get('e') in ('recv', 'dispatch'):
            del ev[i]; done = True
        elif module == 'Trace_Stats' and 'stats' in e:
            e['stats']['rdhs_seen'] += 1; done = True
        elif module == 'Trace_Collector' and e.get('kind') == 'run':
            e['rc'] = 99; done = True
        elif module == 'Trace_Views' and e.get('rows'):
            e['rows'][0]['off'] += 1; done = True
        elif module == 'Trace_Msg' and e.get('e') == 'Msg':
            if e.get('kind') == 'word' and e.get('quoted'):
                e['quoted'][0] ^= 1
            else:
                e['off'] += 1
            done = True
        elif module == 'Trace_Custom' and 'codes' in e:
            e['codes'] = e['codes'] + ['9001'] if '9001' not in e['codes'] else [c for c in e['codes'] if c != '9001']; done = True
        if done:
            break
    with open(path, 'w') as f:
        for e in ev:
            f.write(json.dumps(e) + '\n')
    return done


def tlc(module, cfg, wd, workers=1, simulate=None, tlc_seed=None, env=None, timeout=600, coverage=False, dfs=False):
    """run TLC in SPEC dir; returns dict(rc, out, generated, distinct)"""
    if os.environ.get('VERIF_CORRUPT_TRACE') == module and env and env.get('TRACE') and not os.environ.get('_VERIF_CORRUPTED'):
        if corrupt_trace(module, env['TRACE']):
            os.environ['_VERIF_CORRUPTED'] = '1'          # one observation per run
    meta = f'{wd}/tlc-{module}-{int(time.time()*1000)%100000}'
    cmd = ['timeout', str(timeout), 'tlc', '-workers', str(workers), '-metadir', meta, '-cleanup', '-noGenerateSpecTE', '-config', cfg]
    if simulate:
        cmd += ['-simulate', f'num={simulate[0]}', '-depth', str(simulate[1])]
    if tlc_seed is not None:
        cmd += ['-seed', str(tlc_seed)]
    if coverage:
        cmd += ['-coverage', '1']
    cmd.append(f'{module}.tla')
    e = dict(os.environ)
    jopts = '-Xss1g'
    if dfs:
        jopts += ' -Dtlc2.tool.queue.IStateQueue=StateDeque'
    e['JAVA_TOOL_OPTIONS'] = jopts
    if env:
        e.update(env)
    t0 = time.time()
    r = subprocess.run(cmd, cwd=SPEC, env=e, capture_output=True, text=True)
    wall = round(time.time() - t0, 1)
    shutil.rmtree(meta, ignore_errors=True)
    out = r.stdout
    gen = dist = 0
    m = None
    # statistics are in TLC's own lines; the case lines printed by the spec (long digit/comma runs) are kept away from the regex
    own = '\n'.join(l for l in out.splitlines() if not l.startswith('"'))
    for m in _STATS.finditer(own):
        pass
    if m:
        gen, dist = int(m.group(1).replace(',', '')), int(m.group(2).replace(',', ''))
    else:
        m = _SIM.search(own)
        if m:
            gen = dist = int(m.group(1).replace(',', ''))
    if r.returncode == 124:
        raise ToolError(f'TLC timeout on {module}/{cfg}')
    return {'rc': r.returncode, 'out': out, 'generated': gen, 'distinct': dist, 'wall_s': wall}


def tlc_ok(res):
    o = res['out']
    return ('Error:' not in o) and ('is violated' not in o) and ('NOT ACCEPTED' not in o) and res['rc'] == 0


def tlc_error_excerpt(res, n=40):
    lines = res['out'].splitlines()
    for i, l in enumerate(lines):
        if l.startswith('Error:') or 'REJECT' in l or 'NOT ACCEPTED' in l:
            return '\n'.join(lines[i:i + n])
    return '\n'.join(lines[-n:])


def tagged(text, tag):
    """lines printed by PrintT("TAG " \\o ToJson(x))"""
    pre = f'"{tag} '
    res = []
    for line in text.splitlines():
        if line.startswith(pre):
            js = line.strip()[len(pre):-1].replace('\\"', '"')
            res.append(json.loads(js))
    return res


def rejects(text):
    """lines that say a trace was not accepted (for display); see reject_list for the parsed form"""
    return [l for l in text.splitlines() if l.startswith('"REJECT ') or 'NOT ACCEPTED' in l]


def reject_list(text):
    """REJECT records printed by a trace specification: PrintT("REJECT " \\o ToJson([l, tag, expected, observed, ...])), one line each.
    Every occurrence of the word must parse: output that mentions REJECT in another shape is a tool error, never silently 'accepted'."""
    recs = tagged(text, 'REJECT')
    if text.count('REJECT') != len(recs):
        raise ToolError(f'unparsed REJECT output of a trace specification ({text.count("REJECT")} mentions, {len(recs)} parsed)')
    return recs


# ------------------------------------------------------------------ evidence / verdicts
class Run:
    def __init__(self, prop, tier, level=None):
        if level is None:       # the level claimed in MANIFEST.json is the level recorded in the evidence
            level = 'model_checking'
            try:
                for c in json.load(open(f'{VERIF}/MANIFEST.json'))['checks']:
                    if c['property_id'] == prop:
                        level = c['level_claimed']['category']
            except Exception:   # noqa
                pass
        self.prop, self.tier, self.level = prop, tier, level
        self.t0 = time.time()
        self.cov = {'states': 0, 'transitions': 0, 'traces_validated_against_impl': 0, 'evaluations': 0, 'distinct_nontrivial': 0,
                    'rule': '', 'samples': [], 'tlc_runs': []}
        self.assumptions = []
        self.violations = 0
        self.known = 0
        self.wd = workdir(prop, tier)
        self._known = load_known()

    def phase(self, name):
        """wall time per phase of a check (goes into the evidence)"""
        now = time.time()
        self.cov.setdefault('phase_s', {})[name] = round(now - getattr(self, '_tp', self.t0), 1)
        self._tp = now

    def add_tlc(self, name, res):
        self.cov['states'] += res['distinct']
        self.cov['transitions'] += res['generated']
        self.cov['tlc_runs'].append({'name': name, 'distinct_states': res['distinct'], 'states_generated': res['generated'], 'wall_s': res.get('wall_s')})

    def sample(self, s):
        if len(self.cov['samples']) < 5:
            self.cov['samples'].append(s)

    def violation(self, key, what, replay):
        """key identifies call site + input class (for known findings)"""
        for k in self._known:
            if k['property'] == self.prop and k.get('status', 'open') == 'open' and re.search(k['key'], key):
                if not k.get('_printed'):
                    print(f"KNOWN-FINDING: property={self.prop} {k['what']}")
                    k['_printed'] = True
                self.known += 1
                return False
        os.makedirs(f'{REPLAYS}/{self.prop}', exist_ok=True)
        h = hashlib.sha1(json.dumps(replay, sort_keys=True, default=str).encode()).hexdigest()[:10]
        path = f'{REPLAYS}/{self.prop}/{h}.json'
        with open(path, 'w') as f:
            json.dump({'property': self.prop, 'key': key, 'what': what, 'replay': replay}, f, indent=1, default=str)
        self.violations += 1
        if self.violations <= 5:
            print(f'VIOLATION property={self.prop} replay={path}')
            print(f'  {key}: {what}'[:600])
        return True

    def finish(self):
        ev = {'property_id': self.prop, 'tier': self.tier, 'seed': seed(), 'level': self.level, 'coverage': self.cov,
              'assumptions': self.assumptions, 'wall_s': round(time.time() - self.t0, 2), 'violations': self.violations,
              'known_findings_matched': self.known}
        os.makedirs(EVIDENCE, exist_ok=True)
        with open(f'{EVIDENCE}/{self.prop}.json', 'w') as f:
            json.dump(ev, f, indent=1, default=str)
        print(f'{self.prop} {self.tier}: states={self.cov["states"]} cases={self.cov["evaluations"]} '
              f'traces={self.cov["traces_validated_against_impl"]} violations={self.violations} known={self.known} wall={ev["wall_s"]}s')
        return 1 if self.violations else 0


def load_known():
    p = f'{VERIF}/known_findings.json'
    if not os.path.exists(p):
        return []
    return [dict(k) for k in json.load(open(p)).get('findings', [])]


# ------------------------------------------------------------------ running the CLI
ANSI = re.compile(r'\x1b\[[0-9;]*m')
ERRLINE = re.compile(r'ERROR (?:\x1b\[\d+m)?(0x[0-9A-F]+): (?:\[E(\d+)\]|(Payload error following RDH))')


def run_cli(binary, args, data=None, path=None, timeout=30, env=None, cwd=None):
    """returns (rc, stdout bytes, stderr text); rc: 128+signal for signals, 'timeout' on timeout"""
    cmd = [binary] + ([path] if path else []) + args
    e = dict(os.environ)
    if env:
        e.update(env)
    try:
        r = subprocess.run(cmd, input=data if path is None else None, capture_output=True, timeout=timeout, env=e, cwd=cwd)
    except subprocess.TimeoutExpired:
        return 'timeout', b'', ''
    rc = r.returncode if r.returncode >= 0 else 128 - r.returncode
    return rc, r.stdout, r.stderr.decode(errors='replace')


def parse_errors(stderr_text):
    return [(int(m.group(1), 16), m.group(2) or 'PAYLOAD') for m in ERRLINE.finditer(stderr_text)]


def chain(d):
    import struct
    o = 0
    out = []
    while o + 64 <= len(d):
        sz = struct.unpack_from('<H', d, o + 8)[0]
        if sz < 64:
            break
        out.append((o, sz))
        o += sz
    return out
